(** * Syntax: abstract syntax of the macro INPUT

    What syn / structmeta hand to the generator, abstracted just enough that every decision
    the generator takes is a function of it.  The parsers themselves are not modelled. *)
From Coq Require Export String List Bool Arith Ascii.
Export ListNotations.
Open Scope string_scope.
Open Scope nat_scope.
Open Scope list_scope.
Notation "a +++ b" := (String.append a b) (at level 60, right associativity).

(** ** Tokens (flat token trees: groups are an opening and a closing token) *)
Inductive delim := DParen | DBrace | DBracket.
Inductive tok :=
| TI (s : string)      (* identifier or keyword, raw identifiers keep their r# *)
| TP (s : string)      (* punctuation; several characters = jointly spaced puncts *)
| TL (s : string)      (* literal, in source form *)
| TLt (s : string)     (* lifetime, name without the quote *)
| TO (d : delim)
| TC (d : delim).
Definition toks := list tok.

(** ** Types, paths, generic arguments (a real AST: the generator inspects types) *)
Inductive cexpr :=
| CLit (s : string)
| CPath (lead : bool) (names : list string).

Inductive ty :=
| TyPath (q : option (ty * nat)) (lead : bool) (segs : list seg)
      (* syn::TypePath: qself with `position`, leading `::`, segments *)
| TyRef (lt : option string) (mt : bool) (t : ty)
| TyTuple (ts : list ty)
| TyArray (t : ty) (len : cexpr)
| TySlice (t : ty)
| TyPtr (mt : bool) (t : ty)
| TyFn (args : list ty) (ret : option ty)
| TyNever
| TyParen (t : ty)
| TyDyn (bs : list tbound)
with seg := Seg (name : string) (a : segargs)
with segargs :=
| SANone
| SAAngle (l : list garg)
| SAParen (ins : list ty) (out : option ty)
with garg :=
| GTy (t : ty)
| GLt (l : string)
| GConst (c : cexpr)
| GAssoc (name : string) (t : ty)
with tbound :=
| TBTrait (maybe : bool) (lead : bool) (segs : list seg)   (* `?Sized`, `::a::B<T>` *)
| TBLt (l : string).

Definition path_ty (names : list string) : ty :=
  TyPath None false (map (fun n => Seg n SANone) names).
Definition ident_ty (n : string) : ty := path_ty [n].
Definition self_ty_kw : ty := ident_ty "Self".

(** where-predicates *)
Inductive wpred :=
| WPTy (t : ty) (bs : list tbound)
| WPLt (l : string) (ls : list string).

(** generic parameters *)
Inductive gparam :=
| GPLt (name : string) (bounds : list string)
| GPTy (name : string) (bounds : list tbound) (dflt : option ty)
| GPConst (name : string) (t : ty) (dflt : option cexpr).

Record generics := { g_params : list gparam; g_where : list wpred }.

(** ** `bound(...)` arguments *)
Inductive bound_item := BType (t : ty) | BPred (p : wpred) | BDefault.
Definition bound_arg := option (list bound_item).     (* None: no `bound(...)` at all *)

(** ** Attributes *)
Inductive binop := Add | BitAnd | BitOr | BitXor | Div | Mul | Rem | Shl | Shr | Sub.
Inductive unop := Neg | Not.
Inductive cmpop := COrd | CPartialOrd | CEq | CPartialEq | CHash.

(** `#[derive_ex(Trait, Trait(bound(..), dump), bound(..), dump)]` *)
Record item_args := { ia_bound : bound_arg; ia_dump : bool }.
Record dx_args := {
  dx_items : list (string * option item_args);   (* trait identifier as written *)
  dx_bound : bound_arg;
  dx_dump : bool }.

(** the three shapes of `syn::Meta` *)
Inductive meta (A : Type) := MPath | MList (a : A) | MNameValue (v : toks).
Arguments MPath {A}. Arguments MList {A}. Arguments MNameValue {A}.

Record default_args := { da_value : toks; da_bound : bound_arg }.       (* value `_` = none *)
Record debug_args := { ga_transparent : bool; ga_ignore : bool; ga_bound : bound_arg }.
Record cmp_args := {
  ca_ignore : bool; ca_reverse : bool;
  ca_by : option toks; ca_key : option toks;     (* key template: `$` is TP "$" *)
  ca_bound : bound_arg }.

Inductive attr :=
| AOther (t : toks)                    (* `#[t]`, any attribute with another path *)
| ADeriveEx (a : dx_args)
| ADefault (m : meta default_args)
| ADebug (m : meta debug_args)
| ACmp (op : cmpop) (m : meta cmp_args).

(** ** Items *)
Record field := {
  f_attrs : list attr;
  f_vis : toks;
  f_name : option string;         (* None: tuple field *)
  f_ty : ty }.

Inductive fields := FNamed (l : list field) | FUnnamed (l : list field) | FUnit.
Definition fields_list (fs : fields) : list field :=
  match fs with FNamed l | FUnnamed l => l | FUnit => [] end.

Record variant := {
  v_attrs : list attr;
  v_name : string;
  v_fields : fields;
  v_discr : option toks }.

Record item_struct := {
  s_attrs : list attr; s_vis : toks; s_name : string; s_generics : generics; s_fields : fields }.
Record item_enum := {
  e_attrs : list attr; e_vis : toks; e_name : string; e_generics : generics;
  e_variants : list variant }.

(** `impl Trait<Rhs> for Ty { type Output = ..; fn .. }` *)
Inductive impl_member :=
| IMType (name : string) (t : ty)
| IMOther (t : toks).
Record item_impl := {
  i_attrs : list attr;
  i_generics : generics;
  i_neg : bool;                              (* `impl !Trait for` *)
  i_trait : option (bool * list seg);        (* None: inherent impl *)
  i_self : ty;
  i_items : list impl_member }.

Inductive item :=
| IStruct (s : item_struct)
| IEnum (e : item_enum)
| IImpl (i : item_impl)
| IOtherItem (t : toks).          (* any other item kind (fn, union ...): tokens *)

Inductive mode := Attr | Derive.

(** A case: the macro invocation *)
Record invocation := {
  inv_mode : mode;
  inv_args : dx_args;             (* attribute-macro arguments; ignored for Derive *)
  inv_item : item }.

(** ** Results *)
Inductive result (A : Type) :=
| Ok (a : A)
| Err (msg : string)
| Panic (msg : string).          (* unreachable!/unwrap sites; C16 proves it never happens *)
Arguments Ok {A}. Arguments Err {A}. Arguments Panic {A}.

Definition bind {A B} (r : result A) (f : A -> result B) : result B :=
  match r with Ok a => f a | Err m => Err m | Panic m => Panic m end.
Notation "'do' x <- r ; k" := (bind r (fun x => k))
  (at level 200, x pattern, r at level 100, k at level 200).

Fixpoint mapM {A B} (f : A -> result B) (l : list A) : result (list B) :=
  match l with
  | [] => Ok []
  | x :: xs => do y <- f x; do ys <- mapM f xs; Ok (y :: ys)
  end.

(** ** small utilities *)
Definition unraw (s : string) : string :=
  match s with
  | String "r" (String "#" rest) => rest
  | _ => s
  end.

Fixpoint last_opt {A} (l : list A) : option A :=
  match l with [] => None | [x] => Some x | _ :: xs => last_opt xs end.

Fixpoint str_mem (s : string) (l : list string) : bool :=
  match l with [] => false | x :: xs => String.eqb s x || str_mem s xs end.

(** syn's `split_for_impl` prints lifetimes before the other parameters *)
Definition is_lt_param (p : gparam) : bool :=
  match p with GPLt _ _ => true | _ => false end.
Definition lts_first (ps : list gparam) : list gparam :=
  filter is_lt_param ps ++ filter (fun p => negb (is_lt_param p)) ps.

(** `parse_quote!(#ident #type_g)` *)
Definition garg_of_param (p : gparam) : garg :=
  match p with
  | GPLt n _ => GLt n
  | GPTy n _ _ => GTy (ident_ty n)
  | GPConst n _ _ => GTy (ident_ty n)
  end.
Definition this_ty_of (name : string) (g : generics) : ty :=
  TyPath None false
    [Seg name match g_params g with
              | [] => SANone
              | ps => SAAngle (map garg_of_param (lts_first ps))
              end].
