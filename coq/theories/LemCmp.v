(** * LemCmp: the generated comparison bodies mean what the documentation prescribes *)
From DX Require Import Syntax Tables GenBound GenAttrs IR GenType GenCmp SpecAttrs SpecBound SemCmp SpecCmp LemBound.

(** ** what the generator produces for one field, in terms of the documented selection *)
Definition expr_of (s : selection) (t : ty) : cmp_expr :=
  match s with SBy a g => CEBy a g | SKey k => CEKey k | SOwn => CEDefault t end.

Definition sel_for (op : cmpop) (c : cmp_attrs) : selection :=
  match op with CEq => eq_selected c | _ => selected op c end.

Definition spec_cmp_field (op : cmpop) (f : fentry) : cmp_field :=
  let c := ha_cmp (fe_hattrs f) in
  {| cf_fld := fld_of f;
     cf_expr := expr_of (sel_for op c) (fty f);
     cf_reverse := match op with COrd | CPartialOrd => reversed op c | _ => false end |}.

Notation sel_expr := sel_to_expr.

Lemma sel_for_own op c : is_own (sel_for op c) = is_own (selected op c).
Proof.
  destruct op; try reflexivity. unfold sel_for, eq_selected.
  unfold selected, attr_selection, specific_first.
  cbn [filter affects flat_map by_counts cmpop_eqb cmp_get app];
    repeat match goal with
           | |- context [c_by ?x] => destruct (c_by x); cbn
           | |- context [c_key ?x] => destruct (c_key x); cbn
           end; reflexivity.
Qed.

Notation sel_of_steps := pure_chain.

Lemma chain_sel c l st : fst (chain c l st) = sel_of_steps c l.
Proof.
  revert st. induction l as [|[a ab] l IH]; intros st; cbn [chain pure_chain]; [reflexivity|].
  destruct (if ab then c_by (cmp_get c a) else None); [reflexivity|].
  destruct (c_key (cmp_get c a)); [reflexivity|]. apply IH.
Qed.

Lemma sel_steps_selected op c t :
  sel_expr (sel_of_steps c (steps op)) t = expr_of (selected op c) t.
Proof.
  unfold selected, attr_selection, specific_first.
  destruct op; cbn [steps pure_chain filter affects flat_map by_counts cmpop_eqb cmp_get app];
    repeat match goal with
           | |- context [c_by ?x] => destruct (c_by x)
           | |- context [c_key ?x] => destruct (c_key x)
           end; reflexivity.
Qed.

Lemma build_expr_sel_plain op f st e used st' :
  op <> CEq ->
  build_expr op f st = Ok (e, used, st') ->
  e = expr_of (selected op (ha_cmp (fe_hattrs f))) (fty f).
Proof.
  intros Hop. unfold build_expr. pose proof (chain_sel (ha_cmp (fe_hattrs f)) (steps op) st) as Hs.
  destruct (chain (ha_cmp (fe_hattrs f)) (steps op) st) as [s st1]. cbn [fst] in Hs.
  rewrite <- sel_steps_selected, <- Hs.
  assert (Hm : eq_override op (ha_cmp (fe_hattrs f)) s = s) by (destruct op; try reflexivity; congruence).
  rewrite Hm.
  destruct s; cbn [sel_to_expr].
  - intros X; now inversion X.
  - intros X; now inversion X.
  - destruct (cmp_bad_attr _); [discriminate|]. intros X; now inversion X.
Qed.

Lemma eq_override_spec c s t :
  s = pure_chain c (steps CEq) -> s <> SelNone ->
  sel_to_expr (eq_override CEq c s) t = expr_of (selected CPartialEq c) t.
Proof.
  intros -> Hn. rewrite <- sel_steps_selected. unfold eq_override. revert Hn.
  cbn [steps pure_chain cmp_get].
  repeat match goal with
         | |- context [c_by ?x] => destruct (c_by x)
         | |- context [c_key ?x] => destruct (c_key x)
         end; cbn [sel_to_expr]; intros Hn; try reflexivity; congruence.
Qed.

Lemma build_expr_sel_eq f st e used st' :
  build_expr CEq f st = Ok (e, used, st') ->
  e = expr_of (eq_selected (ha_cmp (fe_hattrs f))) (fty f).
Proof.
  unfold build_expr. pose proof (chain_sel (ha_cmp (fe_hattrs f)) (steps CEq) st) as Hs.
  destruct (chain (ha_cmp (fe_hattrs f)) (steps CEq) st) as [s st1]. cbn [fst] in Hs.
  pose proof (sel_steps_selected CEq (ha_cmp (fe_hattrs f)) (fty f)) as He.
  rewrite <- Hs in He. unfold eq_selected.
  destruct s as [a g|a k|]; cbn [sel_to_expr] in He.
  - destruct (selected CEq _); try discriminate.
    intros X; inversion X. apply eq_override_spec; [exact Hs | discriminate].
  - destruct (selected CEq _); try discriminate.
    intros X; inversion X. apply eq_override_spec; [exact Hs | discriminate].
  - destruct (selected CEq _); try discriminate.
    destruct (cmp_bad_attr _); [discriminate|]. intros X; now inversion X.
Qed.

Lemma build_expr_sel op f st e used st' :
  build_expr op f st = Ok (e, used, st') ->
  e = expr_of (sel_for op (ha_cmp (fe_hattrs f))) (fty f).
Proof.
  destruct op; try (intros H; apply build_expr_sel_plain in H; [exact H | discriminate]).
  apply build_expr_sel_eq.
Qed.

Lemma is_reverse_spec c op r :
  (op = COrd \/ op = CPartialOrd) -> is_reverse c op = Ok r -> r = reversed op c.
Proof.
  intros [->| ->]; unfold is_reverse, reversed; cbn [existsb affects cmp_get andb orb].
  - destruct (c_reverse (h_partial_ord c)); [discriminate|]. intros X; inversion X. now rewrite orb_false_r.
  - intros X; inversion X. now rewrite orb_false_r.
Qed.

Lemma from_fields_list op fs ub w l w' :
  build_from_fields op fs ub w = Ok (l, w') ->
  l = map (spec_cmp_field op) (cmp_used_fields op fs).
Proof.
  revert w l w'. induction fs as [|f fs IH]; intros w l w' H; cbn [build_from_fields] in H.
  - now inversion H.
  - destruct (is_ignore (ha_cmp (fe_hattrs f)) op) as [ign| |] eqn:Ei; cbn [bind] in H; try discriminate H.
    apply is_ignore_spec in Ei. unfold cmp_used_fields. cbn [filter]. rewrite <- Ei.
    destruct ign; cbn [negb].
    + eapply IH; eassumption.
    + destruct (build_expr op f (w, ub)) as [[[e used] [w1 ubf]]| |] eqn:Eb; cbn [bind] in H; try discriminate H.
      apply build_expr_sel in Eb.
      destruct (match op with COrd | CPartialOrd => is_reverse _ op | _ => Ok false end) as [rev| |] eqn:Erev;
        cbn [bind] in H; try discriminate H.
      destruct (hattrs_push_bounds_to_without_helper _ _ _ _) as [w2 ubf2].
      destruct (build_from_fields op fs ub _) as [[r w3]| |] eqn:Er; cbn [bind] in H; try discriminate H.
      apply IH in Er. inversion H; subst. cbn [map]. f_equal.
      unfold spec_cmp_field. cbn [sel_for]. f_equal.
      destruct op; try (now inversion Erev);
        (eapply is_reverse_spec; [auto | exact Erev]).
Qed.

Lemma from_variants_list op vs ub w l w' :
  build_from_variants op vs ub w = Ok (l, w') ->
  l = map (fun v => (variant_arm v, map (spec_cmp_field op) (cmp_used_fields op (ve_fields v)))) vs.
Proof.
  revert w l w'. induction vs as [|v vs IH]; intros w l w' H; cbn [build_from_variants] in H.
  - now inversion H.
  - destruct (hattrs_push_bounds_to _ _ _ _) as [w0 ubv].
    destruct (build_from_fields op (ve_fields v) ubv w0) as [[b w1]| |] eqn:Eb; cbn [bind] in H; try discriminate H.
    apply from_fields_list in Eb.
    destruct (build_from_variants op vs ub w1) as [[r w2]| |] eqn:Ev; cbn [bind] in H; try discriminate H.
    apply IH in Ev. inversion H; subst. reflexivity.
Qed.

(** the body of the impl *)
Lemma compare_op_body op src e h ir :
  build_compare_op op src e h = Ok [ir] ->
  ir_body ir =
  match src with
  | SrcStruct _ fs =>
      let l := map (spec_cmp_field op) (cmp_used_fields op fs) in
      match op with
      | CPartialEq => BPartialEqStruct l | CEq => BEqStruct (eq_checks l)
      | CPartialOrd => BPartialOrdStruct l | COrd => BOrdStruct l | CHash => BHashStruct l
      end
  | SrcEnum en vs =>
      let l := map (fun v => (variant_arm v, map (spec_cmp_field op) (cmp_used_fields op (ve_fields v)))) vs in
      match op with
      | CPartialEq => BPartialEqEnum l
      | CEq => BEqEnum (e_name en) (map (fun '(a, cs) => (a, eq_checks cs)) l)
      | CPartialOrd => BPartialOrdEnum l | COrd => BOrdEnum l | CHash => BHashEnum l
      end
  end.
Proof.
  unfold build_compare_op. cbv zeta. destruct (entry_push_bounds_to_with _ _ _ _) as [w ub].
  destruct src as [s fs|en vs].
  - destruct (build_from_fields op fs ub w) as [[l w']| |] eqn:Eb; cbn [bind]; try discriminate.
    apply from_fields_list in Eb. subst l. intros X; inversion X; subst. reflexivity.
  - destruct (build_from_variants op vs ub w) as [[l w']| |] eqn:Eb; cbn [bind]; try discriminate.
    apply from_variants_list in Eb. subst l. intros X; inversion X; subst. reflexivity.
Qed.

(** ** evaluation *)
Section Eval.
  Variable V : Type.
  Variable d_eq : ty -> V -> V -> bool.
  Variable d_pcmp : ty -> V -> V -> option comparison.
  Variable d_cmp : ty -> V -> V -> comparison.
  Variable k_eq : toks -> V -> V -> bool.
  Variable k_pcmp : toks -> V -> V -> option comparison.
  Variable k_cmp : toks -> V -> V -> comparison.
  Variable by_eq : toks -> V -> V -> bool.
  Variable by_pcmp : toks -> V -> V -> option comparison.
  Variable by_cmp : toks -> V -> V -> comparison.

  Notation field_eq := (field_eq V d_eq k_eq by_eq by_pcmp by_cmp).
  Notation field_pcmp := (field_pcmp V d_pcmp k_pcmp by_pcmp by_cmp).
  Notation field_cmp := (field_cmp V d_cmp k_cmp by_cmp).
  Notation sp_field_eq := (sp_field_eq V d_eq k_eq by_eq by_pcmp by_cmp).
  Notation sp_field_pcmp := (sp_field_pcmp V d_pcmp k_pcmp by_pcmp by_cmp).
  Notation sp_field_cmp := (sp_field_cmp V d_cmp k_cmp by_cmp).

  Lemma field_eq_spec f a b :
    field_eq (spec_cmp_field CPartialEq f) a b = sp_field_eq f (at_ V a f) (at_ V b f).
  Proof.
    unfold SemCmp.field_eq, SpecCmp.sp_field_eq, fget, at_, spec_cmp_field. cbn [sel_for cf_fld cf_expr fld_of fl_index].
    destruct (selected CPartialEq (ha_cmp (fe_hattrs f))) as [a0 g|k|]; cbn [expr_of]; try reflexivity.
    all: destruct a0; unfold is_some_eq, is_eq; reflexivity.
  Qed.

  Lemma field_pcmp_spec f a b :
    field_pcmp (spec_cmp_field CPartialOrd f) a b = sp_field_pcmp f (at_ V a f) (at_ V b f).
  Proof.
    unfold SemCmp.field_pcmp, SpecCmp.sp_field_pcmp, fget, at_, spec_cmp_field.
    cbn [sel_for cf_fld cf_expr cf_reverse fld_of fl_index].
    destruct (selected CPartialOrd (ha_cmp (fe_hattrs f))) as [a0 g|k|]; cbn [expr_of]; try reflexivity.
    all: destruct a0; reflexivity.
  Qed.

  Lemma field_cmp_spec f a b :
    field_cmp (spec_cmp_field COrd f) a b = sp_field_cmp f (at_ V a f) (at_ V b f).
  Proof.
    unfold SemCmp.field_cmp, SpecCmp.sp_field_cmp, fget, at_, spec_cmp_field.
    cbn [sel_for cf_fld cf_expr cf_reverse fld_of fl_index].
    destruct (selected COrd (ha_cmp (fe_hattrs f))) as [a0 g|k|]; cbn [expr_of]; reflexivity.
  Qed.

  Lemma forallb_map {A B} (g : A -> B) (p : B -> bool) l : forallb p (map g l) = forallb (fun x => p (g x)) l.
  Proof. induction l as [|x l IH]; cbn; [reflexivity|]. now rewrite IH. Qed.

  Lemma forallb_ext' {A} (p q : A -> bool) l : (forall x, p x = q x) -> forallb p l = forallb q l.
  Proof. intros H. induction l as [|x l IH]; cbn; [reflexivity|]. now rewrite H, IH. Qed.

  Lemma fields_eq_spec fs a b :
    fields_eq V d_eq k_eq by_eq by_pcmp by_cmp (map (spec_cmp_field CPartialEq) (cmp_used_fields CPartialEq fs)) a b
    = sp_fields_eq V d_eq k_eq by_eq by_pcmp by_cmp fs a b.
  Proof.
    unfold fields_eq, sp_fields_eq. rewrite forallb_map. apply forallb_ext'. intros f. apply field_eq_spec.
  Qed.

  Lemma fields_pcmp_spec fs a b :
    fields_pcmp V d_pcmp k_pcmp by_pcmp by_cmp (map (spec_cmp_field CPartialOrd) (cmp_used_fields CPartialOrd fs)) a b
    = sp_fields_pcmp V d_pcmp k_pcmp by_pcmp by_cmp fs a b.
  Proof.
    unfold sp_fields_pcmp. induction (cmp_used_fields CPartialOrd fs) as [|f l IH]; cbn [map fields_pcmp first_non_eq_opt].
    - reflexivity.
    - rewrite field_pcmp_spec. destruct (sp_field_pcmp f (at_ V a f) (at_ V b f)) as [[]|]; try reflexivity. exact IH.
  Qed.

  Lemma fields_cmp_spec fs a b :
    fields_cmp V d_cmp k_cmp by_cmp (map (spec_cmp_field COrd) (cmp_used_fields COrd fs)) a b
    = sp_fields_cmp V d_cmp k_cmp by_cmp fs a b.
  Proof.
    unfold sp_fields_cmp. induction (cmp_used_fields COrd fs) as [|f l IH]; cbn [map fields_cmp first_non_eq].
    - reflexivity.
    - rewrite field_cmp_spec. destruct (sp_field_cmp f (at_ V a f) (at_ V b f)); try reflexivity. exact IH.
  Qed.

  Lemma field_feed_spec op f a :
    field_feed V (spec_cmp_field op f) a = match sel_for op (ha_cmp (fe_hattrs f)) with
                                           | SBy _ g => FeedBy g (at_ V a f)
                                           | SKey k => FeedKey k (at_ V a f)
                                           | SOwn => FeedField (fty f) (at_ V a f)
                                           end.
  Proof.
    unfold field_feed, fget, at_, spec_cmp_field. cbn [cf_fld cf_expr fld_of fl_index].
    destruct (sel_for op (ha_cmp (fe_hattrs f))); reflexivity.
  Qed.

  Lemma fields_feed_spec fs a :
    map (fun c => field_feed V c a) (map (spec_cmp_field CHash) (cmp_used_fields CHash fs))
    = sp_fields_feed V fs a.
  Proof.
    unfold sp_fields_feed, sp_field_feed. rewrite map_map. apply map_ext. intros f. apply (field_feed_spec CHash).
  Qed.

  (** *** enums: arm search = variant lookup *)
  Definition arms_of (op : cmpop) (vs : list ventry) : list arm :=
    map (fun v => (variant_arm v, map (spec_cmp_field op) (cmp_used_fields op (ve_fields v)))) vs.

  Lemma arm_name_of op v :
    arm_name (variant_arm v, map (spec_cmp_field op) (cmp_used_fields op (ve_fields v))) = v_name (ve_variant v).
  Proof. reflexivity. Qed.

  Lemma find_arm_same op vs (a b : value V) :
    v_variant a = v_variant b ->
    find_arm V (arms_of op vs) a b
    = option_map (fun v => (variant_arm v, map (spec_cmp_field op) (cmp_used_fields op (ve_fields v))))
                 (variant_named vs (v_variant a)).
  Proof.
    intros E. unfold find_arm, variant_named, arms_of. rewrite <- E.
    induction vs as [|v vs IH]; cbn [map find option_map]; [reflexivity|].
    rewrite arm_name_of. destruct (String.eqb (v_name (ve_variant v)) (v_variant a)); cbn; [reflexivity | exact IH].
  Qed.

  Lemma find_arm_diff op vs (a b : value V) :
    v_variant a <> v_variant b -> find_arm V (arms_of op vs) a b = None.
  Proof.
    intros N. unfold find_arm, arms_of. induction vs as [|v vs IH]; cbn [map find]; [reflexivity|].
    rewrite arm_name_of.
    destruct (String.eqb (v_name (ve_variant v)) (v_variant a)) eqn:E1; cbn [andb]; [|exact IH].
    destruct (String.eqb (v_name (ve_variant v)) (v_variant b)) eqn:E2; [|exact IH].
    apply String.eqb_eq in E1, E2. congruence.
  Qed.

  Lemma to_index_position op vs name i :
    to_index (arms_of op vs) name i = position vs name i.
  Proof.
    revert i. induction vs as [|v vs IH]; intros i; cbn [arms_of map to_index position]; [reflexivity|].
    rewrite arm_name_of. destruct (String.eqb _ name); [reflexivity | apply IH].
  Qed.

  Lemma position_named vs name i :
    (exists n, position vs name i = Some n) <-> (exists v, variant_named vs name = Some v).
  Proof.
    unfold variant_named. revert i. induction vs as [|v vs IH]; intros i; cbn.
    - split; intros [x H]; discriminate.
    - destruct (String.eqb (v_name (ve_variant v)) name); [split; eauto | apply IH].
  Qed.

  Lemma enum_eq_spec vs a b :
    eval_eq V d_eq k_eq by_eq by_pcmp by_cmp (BPartialEqEnum (arms_of CPartialEq vs)) a b
    = Some (sp_enum_eq V d_eq k_eq by_eq by_pcmp by_cmp vs a b).
  Proof.
    unfold eval_eq, sp_enum_eq. f_equal.
    destruct (String.eqb (v_variant a) (v_variant b)) eqn:E.
    - apply String.eqb_eq in E. rewrite find_arm_same by exact E.
      destruct (variant_named vs (v_variant a)) as [v|]; cbn [option_map snd]; [apply fields_eq_spec | reflexivity].
    - apply String.eqb_neq in E. now rewrite find_arm_diff.
  Qed.

  Lemma enum_pcmp_spec vs a b :
    eval_pcmp V d_pcmp k_pcmp by_pcmp by_cmp (BPartialOrdEnum (arms_of CPartialOrd vs)) a b
    = sp_enum_pcmp V d_pcmp k_pcmp by_pcmp by_cmp vs a b.
  Proof.
    unfold eval_pcmp, sp_enum_pcmp. rewrite !to_index_position.
    destruct (String.eqb (v_variant a) (v_variant b)) eqn:E.
    - apply String.eqb_eq in E. rewrite find_arm_same by exact E. rewrite <- E.
      destruct (variant_named vs (v_variant a)) as [v|] eqn:Ev; cbn [option_map snd].
      + destruct (proj2 (position_named vs (v_variant a) 0) (ex_intro _ v Ev)) as [n Hn]. rewrite Hn.
        now rewrite fields_pcmp_spec.
      + destruct (position vs (v_variant a) 0) eqn:Ep; [|reflexivity].
        destruct (proj1 (position_named vs (v_variant a) 0) (ex_intro _ n Ep)) as [v Hv]. congruence.
    - apply String.eqb_neq in E. rewrite find_arm_diff by exact E.
      destruct (position vs (v_variant a) 0), (position vs (v_variant b) 0); reflexivity.
  Qed.

  Lemma enum_cmp_spec vs a b :
    eval_cmp V d_cmp k_cmp by_cmp (BOrdEnum (arms_of COrd vs)) a b
    = sp_enum_cmp V d_cmp k_cmp by_cmp vs a b.
  Proof.
    unfold eval_cmp, sp_enum_cmp. rewrite !to_index_position.
    destruct (String.eqb (v_variant a) (v_variant b)) eqn:E.
    - apply String.eqb_eq in E. rewrite find_arm_same by exact E. rewrite <- E.
      destruct (variant_named vs (v_variant a)) as [v|] eqn:Ev; cbn [option_map snd].
      + destruct (proj2 (position_named vs (v_variant a) 0) (ex_intro _ v Ev)) as [n Hn]. rewrite Hn.
        now rewrite fields_cmp_spec.
      + destruct (position vs (v_variant a) 0) eqn:Ep; [|reflexivity].
        destruct (proj1 (position_named vs (v_variant a) 0) (ex_intro _ n Ep)) as [v Hv]. congruence.
    - apply String.eqb_neq in E. rewrite find_arm_diff by exact E.
      destruct (position vs (v_variant a) 0), (position vs (v_variant b) 0); reflexivity.
  Qed.

  Lemma enum_hash_spec vs a :
    eval_hash V (BHashEnum (arms_of CHash vs)) a = sp_enum_feed V vs a.
  Proof.
    unfold eval_hash, sp_enum_feed, variant_named, arms_of.
    induction vs as [|v vs IH]; cbn [map find option_map]; [reflexivity|].
    rewrite arm_name_of. destruct (String.eqb (v_name (ve_variant v)) (v_variant a)); cbn [option_map snd].
    - now rewrite fields_feed_spec.
    - exact IH.
  Qed.
End Eval.

(** ** independence from the co-derived traits *)
Lemma match_when_derived k tr a :
  kinds_derived k tr = true -> affects a tr = true -> is_match_cmp_attr k a = true.
Proof.
  intros Hd Ha. unfold is_match_cmp_attr. apply existsb_exists. exists tr. split.
  - unfold cmp_variants. destruct tr; cbn; auto 6.
  - rewrite Hd. cbn. rewrite <- Ha. destruct a, tr; reflexivity.
Qed.

Lemma parsed_relevant attrs k k' c c' tr :
  kinds_derived k tr = true -> kinds_derived k' tr = true ->
  cmp_attrs_from_attrs attrs k = Ok c -> cmp_attrs_from_attrs attrs k' = Ok c' ->
  forall a, affects a tr = true -> cmp_get c a = cmp_get c' a.
Proof.
  intros Hk Hk' H H' a Ha. unfold cmp_attrs_from_attrs in *.
  pose proof (match_when_derived k tr a Hk Ha) as M. pose proof (match_when_derived k' tr a Hk' Ha) as M'.
  repeat match type of H with bind ?r _ = _ => destruct r eqn:?; cbn [bind] in H; try discriminate H end.
  repeat match type of H' with bind ?r _ = _ => destruct r eqn:?; cbn [bind] in H'; try discriminate H' end.
  inversion H; inversion H'; subst. destruct a; cbn [cmp_get h_ord h_partial_ord h_eq h_partial_eq h_hash];
    rewrite M in *; rewrite M' in *; congruence.
Qed.

Lemma spec_relevant tr c c' :
  (forall a, affects a tr = true -> cmp_get c a = cmp_get c' a) ->
  selected tr c = selected tr c' /\ cmp_ignored tr c = cmp_ignored tr c' /\ reversed tr c = reversed tr c'.
Proof.
  intros H. unfold selected, attr_selection, cmp_ignored, reversed, specific_first, all_cmp.
  destruct tr; cbn [filter affects flat_map existsb andb by_counts cmpop_eqb];
    rewrite ?(H COrd eq_refl), ?(H CPartialOrd eq_refl), ?(H CEq eq_refl), ?(H CPartialEq eq_refl),
      ?(H CHash eq_refl); repeat split; reflexivity.
Qed.

(** ** the feed and the effective inputs *)
Lemma feed_determined V fs (a b : value V) :
  (forall f, In f (cmp_used_fields CHash fs) -> at_ V a f = at_ V b f) ->
  sp_fields_feed V fs a = sp_fields_feed V fs b.
Proof. intros H. unfold sp_fields_feed. apply map_ext_in. intros f Hf. now rewrite (H f Hf). Qed.

Definition feed_input {V} (e : feed_event V) : V :=
  match e with FeedField _ x | FeedKey _ x | FeedBy _ x => x end.

Lemma feed_input_field V g x : feed_input (sp_field_feed V g x) = x.
Proof. unfold sp_field_feed. destruct (selected CHash _); reflexivity. Qed.

Lemma feed_sensitive_list V (l : list fentry) (a b : value V) :
  map (fun f => sp_field_feed V f (at_ V a f)) l = map (fun f => sp_field_feed V f (at_ V b f)) l ->
  forall f, In f l -> at_ V a f = at_ V b f.
Proof.
  induction l as [|g l IH]; intros E f Hf; [contradiction|].
  cbn [map] in E. inversion E as [[E1 E2]].
  destruct Hf as [<-|Hf]; [|now apply IH].
  apply (f_equal feed_input) in E1. now rewrite !feed_input_field in E1.
Qed.

Lemma feed_sensitive V fs (a b : value V) :
  sp_fields_feed V fs a = sp_fields_feed V fs b ->
  forall f, In f (cmp_used_fields CHash fs) -> at_ V a f = at_ V b f.
Proof. apply feed_sensitive_list. Qed.
