(** * GenType: model of the builders of derive-ex/src/item_type.rs
    (operators, Clone, Copy, Debug, Default, Deref) — one Gallina function per Rust function,
    same control flow, same order of effects on the where-clause builder. *)
From DX Require Import Syntax GenBound GenAttrs IR.

Definition fld_of (f : fentry) : fld :=
  {| fl_index := fe_index f; fl_member := fe_member f; fl_ty := f_ty (fe_field f) |}.

Definition mk_hdr (allow : bool) (g : generics) (k : kind) (rhs : option bool) (self_ref : bool)
           (this : ty) (w : wcb) (form : where_form) : impl_hdr :=
  {| ih_allow := allow; ih_generics := g; ih_trait := k; ih_rhs := rhs; ih_self_ref := self_ref;
     ih_this := this; ih_wtypes := w_types w; ih_wpreds := w_preds w; ih_wform := form |}.

(** push the bounds of every field, in order *)
Definition push_fields (fs : list fentry) (ub : bool) (k : kind) (w : wcb) : wcb :=
  fold_left (fun w f => fentry_push_bounds_to f ub k w) fs w.

(** ** operators from a struct definition *)
Definition build_binary_op (s : item_struct) (op : binop) (e : entry) (fs : list fentry)
  : result (list impl_ir) :=
  let k := KBin op in
  let this := this_ty_of (s_name s) (s_generics s) in
  let g := expand_self_generics this (s_generics s) in
  let build (l r : bool) :=
    let w := wcb_new g in
    let '(w, ub) := entry_push_bounds_to e w in
    let w := push_fields fs ub k w in
    {| ir_hdr := mk_hdr false g k (Some r) l this w (WFBin l r);
       ir_body := BBin op l r (s_name s) (shape_of (s_fields s)) (map fld_of fs) |} in
  Ok [build false false; build false true; build true false; build true true].

Definition build_assign_op (s : item_struct) (op : binop) (e : entry) (fs : list fentry)
  : result (list impl_ir) :=
  let k := KAssign op in
  let this := this_ty_of (s_name s) (s_generics s) in
  let g := expand_self_generics this (s_generics s) in
  let build (r : bool) :=
    let w := wcb_new g in
    let '(w, ub) := entry_push_bounds_to e w in
    let w := push_fields fs ub k w in
    {| ir_hdr := mk_hdr false g k (Some r) false this w (WFAssign r);
       ir_body := BAssign op r (map fld_of fs) |} in
  Ok [build false; build true].

Definition build_unary_op (s : item_struct) (op : unop) (e : entry) (fs : list fentry)
  : result (list impl_ir) :=
  let k := KUn op in
  let this := this_ty_of (s_name s) (s_generics s) in
  let g := expand_self_generics this (s_generics s) in
  let build (l : bool) :=
    let w := wcb_new g in
    let '(w, ub) := entry_push_bounds_to e w in
    let w := push_fields fs ub k w in
    {| ir_hdr := mk_hdr false g k None l this w (WFUn l);
       ir_body := BUn op l (s_name s) (shape_of (s_fields s)) (map fld_of fs) |} in
  Ok [build false; build true].

(** ** Clone *)
Definition build_clone_for_struct (s : item_struct) (e : entry) (fs : list fentry)
  : result (list impl_ir) :=
  let k := KClone in
  let this := this_ty_of (s_name s) (s_generics s) in
  let w := wcb_new (s_generics s) in
  let '(w, ub) := entry_push_bounds_to e w in
  let w := push_fields fs ub k w in
  Ok [{| ir_hdr := mk_hdr false (s_generics s) k None false this w WFPlain;
         ir_body := BCloneStruct (s_name s) (shape_of (s_fields s)) (map fld_of fs) |}].

Definition variant_arm (v : ventry) : string * shape * list fld :=
  (v_name (ve_variant v), shape_of (v_fields (ve_variant v)), map fld_of (ve_fields v)).

Definition build_clone_for_enum (en : item_enum) (e : entry) (vs : list ventry)
  : result (list impl_ir) :=
  let k := KClone in
  let this := this_ty_of (e_name en) (e_generics en) in
  let w := wcb_new (e_generics en) in
  let '(w, ub) := entry_push_bounds_to e w in
  let w := fold_left (fun w v =>
                        let '(w, ubv) := push_bounds_to_raw (ve_hattrs v) ub false k w in
                        push_fields (ve_fields v) ubv k w) vs w in
  Ok [{| ir_hdr := mk_hdr false (e_generics en) k None false this w WFPlain;
         ir_body := BCloneEnum (map variant_arm vs) |}].

(** ** Copy *)
Definition build_copy_for_struct (s : item_struct) (e : entry) (fs : list fentry)
  : result (list impl_ir) :=
  let k := KCopy in
  let this := this_ty_of (s_name s) (s_generics s) in
  let w := wcb_new (s_generics s) in
  let '(w, ub) := entry_push_bounds_to e w in
  let w := push_fields fs ub k w in
  Ok [{| ir_hdr := mk_hdr false (s_generics s) k None false this w WFPlain; ir_body := BCopy |}].

Definition build_copy_for_enum (en : item_enum) (e : entry) (vs : list ventry)
  : result (list impl_ir) :=
  let k := KCopy in
  let this := this_ty_of (e_name en) (e_generics en) in
  let w := wcb_new (e_generics en) in
  let '(w, ub) := entry_push_bounds_to e w in
  let w := fold_left (fun w v =>
                        let '(w, ubv) := push_bounds_to_raw (ve_hattrs v) ub false k w in
                        push_fields (ve_fields v) ubv k w) vs w in
  Ok [{| ir_hdr := mk_hdr false (e_generics en) k None false this w WFPlain; ir_body := BCopy |}].

(** ** Debug *)
Definition transparent_msg : string := "only one field can be set `#[debug(transparent)]`".

(** first transparent field, or an error if there are two *)
Fixpoint find_transparent (fs : list fentry) (found : option fentry) : result (option fentry) :=
  match fs with
  | [] => Ok found
  | f :: rest =>
      if g_transparent (ha_debug (fe_hattrs f)) then
        match found with
        | Some _ => Err transparent_msg
        | None => find_transparent rest (Some f)
        end
      else find_transparent rest found
  end.

Definition is_debug_ignore (f : fentry) : bool := g_ignore (ha_debug (fe_hattrs f)).

Definition build_debug_expr (name : string) (src : fields) (fs : list fentry) (ub : bool) (w : wcb)
  : result (debug_body * wcb) :=
  do tf <- find_transparent fs None;
  match tf with
  | Some f => Ok (DbgTransparent (fld_of f), fentry_push_bounds_to f ub KDebug w)
  | None =>
      let used := filter (fun f => negb (is_debug_ignore f)) fs in
      Ok (DbgFields name (shape_of src) (map fld_of used), push_fields used ub KDebug w)
  end.

(** the last field of a struct may be unsized, which cannot be told from its tokens (an alias, parentheses): it is
    always passed as `&&self.x`, as the standard derive does *)
Definition last_double_ref (s : item_struct) (fs : list fentry) : option nat :=
  match last_opt fs with
  | Some f => Some (fe_index f)
  | None => None
  end.

Definition build_debug_for_struct (s : item_struct) (e : entry) (h : hattrs) (fs : list fentry)
  : result (list impl_ir) :=
  let k := KDebug in
  let this := this_ty_of (s_name s) (s_generics s) in
  let w := wcb_new (s_generics s) in
  let '(w, ub) := entry_push_bounds_to_with e h k w in
  do (d, w) <- build_debug_expr (s_name s) (s_fields s) fs ub w;
  Ok [{| ir_hdr := mk_hdr false (s_generics s) k None false this w WFPlain;
         ir_body := BDebugStruct d (last_double_ref s fs) |}].

Fixpoint debug_arms (vs : list ventry) (ub : bool) (w : wcb)
  : result (list (string * shape * list fld * debug_body) * wcb) :=
  match vs with
  | [] => Ok ([], w)
  | v :: rest =>
      let '(w, ubv) := hattrs_push_bounds_to (ve_hattrs v) ub KDebug w in
      do (d, w) <- build_debug_expr (v_name (ve_variant v)) (v_fields (ve_variant v))
                       (ve_fields v) ubv w;
      do (arms, w) <- debug_arms rest ub w;
      Ok ((variant_arm v, d) :: arms, w)
  end.

Definition build_debug_for_enum (en : item_enum) (e : entry) (h : hattrs) (vs : list ventry)
  : result (list impl_ir) :=
  let k := KDebug in
  let this := this_ty_of (e_name en) (e_generics en) in
  let w := wcb_new (e_generics en) in
  let '(w, ub) := entry_push_bounds_to_with e h k w in
  do (arms, w) <- debug_arms vs ub w;
  Ok [{| ir_hdr := mk_hdr false (e_generics en) k None false this w WFPlain;
         ir_body := BDebugEnum arms |}].

(** ** Default *)
Inductive expr_class := ELitStr | EPath | EOtherExpr.

Definition starts_with_quote (s : string) : bool :=
  match s with
  | String c rest =>
      Ascii.eqb c """" ||
      (Ascii.eqb c "r" && match rest with
                          | String c2 _ => Ascii.eqb c2 """" || Ascii.eqb c2 "#"
                          | EmptyString => false
                          end)
  | EmptyString => false
  end.

Definition not_path_ident (s : string) : bool :=
  str_mem s ["true"; "false"; "if"; "match"; "loop"; "while"; "for"; "unsafe"; "return"; "break";
             "continue"; "async"; "move"; "let"; "const"; "static"; "_"; "fn"; "as"; "in";
             "mut"; "ref"; "dyn"; "impl"; "where"; "struct"; "enum"; "type"; "use"; "pub";
             "mod"; "trait"; "extern"; "else"; "await"; "yield"; "try"; "macro"; "union"].

Fixpoint is_path_tail (t : toks) : bool :=
  match t with
  | [] => true
  | TP "::" :: TI s :: rest => negb (not_path_ident s) && is_path_tail rest
  | _ => false
  end.
Definition is_path_expr (t : toks) : bool :=
  match t with
  | TI s :: rest => negb (not_path_ident s) && is_path_tail rest
  | TP "::" :: TI s :: rest => negb (not_path_ident s) && is_path_tail rest
  | _ => false
  end.

(** `need_into`: a string literal or a path *)
Definition classify_expr (t : toks) : expr_class :=
  match t with
  | [TL s] => if starts_with_quote s then ELitStr else EOtherExpr
  | _ => if is_path_expr t then EPath else EOtherExpr
  end.

(** `HelperAttributeForDefault::value(ty)` *)
Definition default_attr_value (a : default_attr) (t : ty) : option dvalue :=
  match d_value a with
  | Some e =>
      Some match classify_expr e with
           | ELitStr | EPath => DVInto t e
           | EOtherExpr => DVExpr e
           end
  | None => None
  end.
Definition hattrs_default_value (h : hattrs) (t : ty) : option dvalue :=
  match ha_default h with Some a => default_attr_value a t | None => None end.

Fixpoint build_default_ctor_args (fs : list fentry) (ub : bool) (w : wcb)
  : list (member * dvalue) * wcb :=
  match fs with
  | [] => ([], w)
  | f :: rest =>
      let t := f_ty (fe_field f) in
      let value := hattrs_default_value (fe_hattrs f) t in
      let '(w, ubf) := hattrs_push_bounds_to (fe_hattrs f) ub KDefault w in
      let w := if ubf && match value with None => true | Some _ => false end
               then push_bounds_for_field w t else w in
      let v := match value with Some v => v | None => DVDefault t end in
      let '(args, w) := build_default_ctor_args rest ub w in
      ((fe_member f, v) :: args, w)
  end.

Definition build_default_for_struct (s : item_struct) (e : entry) (h : hattrs) (fs : list fentry)
  : result (list impl_ir) :=
  let k := KDefault in
  let this := this_ty_of (s_name s) (s_generics s) in
  let w := wcb_new (s_generics s) in
  let '(w, ub) := entry_push_bounds_to_with e h k w in
  let '(b, w) :=
    match hattrs_default_value h self_ty_kw with
    | Some v => (BDefaultSelf v, w)
    | None =>
        let '(args, w) := build_default_ctor_args fs ub w in
        (BDefaultCtor [s_name s] (shape_of (s_fields s)) args, w)
    end in
  Ok [{| ir_hdr := mk_hdr false (s_generics s) k None false this w WFPlain; ir_body := b |}].

Definition no_default_variant_msg : string := "variant with `#[default(...)]` does not exist.".
Definition multi_default_msg (names : list string) : string :=
  "there are multiple variants with `#[default(...)]` (" +++
  (fix join (l : list string) :=
     match l with [] => "" | [x] => x | x :: xs => x +++ ", " +++ join xs end) names +++ ")".
Definition variant_value_msg : string :=
  "`#[default(...)]` on a variant cannot specify a default value".

Definition build_default_for_enum (en : item_enum) (e : entry) (h : hattrs) (vs : list ventry)
  : result (list impl_ir) :=
  let k := KDefault in
  let this := this_ty_of (e_name en) (e_generics en) in
  let w := wcb_new (e_generics en) in
  let '(w, ub) := entry_push_bounds_to_with e h k w in
  do (b, w) <-
    match hattrs_default_value h self_ty_kw with
    | Some v => Ok (BDefaultSelf v, w)
    | None =>
        let marked := flat_map (fun v => match ha_default (ve_hattrs v) with
                                         | Some a => [(v, a)] | None => [] end) vs in
        do (v, a) <-
          match marked with
          | [] => match vs with
                  | [v] => Ok (v, {| d_value := None; d_bounds := bounds_new |})
                  | _ => Err no_default_variant_msg
                  end
          | [va] => Ok va
          | _ => Err (multi_default_msg (map (fun va => v_name (ve_variant (fst va))) marked))
          end;
        let '(w, ubv) := hattrs_push_bounds_to (ve_hattrs v) ub k w in
        match d_value a with
        | Some _ => Err variant_value_msg
        | None =>
            let '(args, w) := build_default_ctor_args (ve_fields v) ubv w in
            Ok (BDefaultCtor [e_name en; v_name (ve_variant v)]
                             (shape_of (v_fields (ve_variant v))) args, w)
        end
    end;
  Ok [{| ir_hdr := mk_hdr false (e_generics en) k None false this w WFPlain; ir_body := b |}].

(** ** Deref / DerefMut *)
Definition deref_msg (k : kind) : string :=
  "`#[deirve_ex(" +++ kind_display k +++ ")]` supports only single field struct.".

Definition build_deref_for_struct (s : item_struct) (e : entry) (fs : list fentry)
  : result (list impl_ir) :=
  let k := en_kind e in
  let this := this_ty_of (s_name s) (s_generics s) in
  let w := wcb_new (s_generics s) in
  let '(w, _) := entry_push_bounds_to e w in
  match fs with
  | [f] =>
      let target := f_ty (fe_field f) in
      do b <- match k with
              | KDeref => Ok (BDeref target (fe_member f))
              | KDerefMut => Ok (BDerefMut target (fe_member f))
              | _ => Panic "unreachable"
              end;
      Ok [{| ir_hdr := mk_hdr false (s_generics s) k None false this w WFPlain; ir_body := b |}]
  | _ => Err (deref_msg k)
  end.
