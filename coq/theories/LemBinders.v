(** * LemBinders: the bindings generated for the fields of one variant are pairwise distinct (C13)

    Bindings are numbered by field position ([make_ident prefix (MIndex i)] = prefix ++ "_" ++ decimal i).
    Decimal printing is injective, so two fields of one struct / variant never get the same binding, whatever
    they are called (fix 0085919: names derived from field names could collide - `x` / `_x`, `fooBar` / `foo_bar`). *)
From DX Require Import Syntax Tables Render GenBound GenAttrs IR RenderOut.
Require Import Coq.Arith.PeanoNat Lia.

Definition digit (n : nat) : ascii := ascii_of_nat (48 + n mod 10).

(** [digits fuel n]: the decimal digits of [n], most significant first *)
Fixpoint digits (fuel n : nat) : string :=
  match fuel with
  | 0 => ""
  | S f => if n / 10 =? 0 then String (digit n) "" else digits f (n / 10) +++ String (digit n) ""
  end.

Lemma append_assoc' a b c : (a +++ b) +++ c = a +++ (b +++ c).
Proof. induction a as [|x a IH]; cbn; [reflexivity|]. now rewrite IH. Qed.

Lemma aux_digits fuel n acc : nat_to_string_aux fuel n acc = digits fuel n +++ acc.
Proof.
  revert n acc. induction fuel as [|f IH]; intros n acc; cbn [nat_to_string_aux digits]; [reflexivity|].
  fold (digit n). destruct (n / 10 =? 0); [reflexivity|]. rewrite IH, append_assoc'. reflexivity.
Qed.

Lemma append_nil_r s : s +++ "" = s.
Proof. induction s as [|x s IH]; cbn; [reflexivity|]. now rewrite IH. Qed.

Lemma nat_to_string_digits n : nat_to_string n = digits (S n) n.
Proof. unfold nat_to_string. now rewrite aux_digits, append_nil_r. Qed.

(** the value of a digit string *)
Fixpoint value (s : string) (acc : nat) : nat :=
  match s with
  | "" => acc
  | String c r => value r (10 * acc + (nat_of_ascii c - 48))
  end.

Lemma value_app a b acc : value (a +++ b) acc = value b (value a acc).
Proof. revert acc. induction a as [|x a IH]; intros acc; cbn; [reflexivity|]. apply IH. Qed.

Lemma digit_value n : nat_of_ascii (digit n) - 48 = n mod 10.
Proof.
  unfold digit. rewrite nat_ascii_embedding.
  - lia.
  - pose proof (Nat.mod_upper_bound n 10). lia.
Qed.

Lemma value_digits fuel n : n < fuel -> value (digits fuel n) 0 = n.
Proof.
  revert n. induction fuel as [|f IH]; intros n H; [lia|]. cbn [digits].
  destruct (n / 10 =? 0) eqn:E.
  - apply Nat.eqb_eq in E. cbn [value]. rewrite digit_value. pose proof (Nat.div_mod_eq n 10). lia.
  - apply Nat.eqb_neq in E. rewrite value_app. cbn [value]. rewrite digit_value, IH.
    + pose proof (Nat.div_mod_eq n 10). lia.
    + assert (0 < n) by (destruct n; [cbn in E; congruence|lia]).
      assert (n / 10 < n) by (apply Nat.div_lt; lia). lia.
Qed.

Theorem nat_to_string_inj a b : nat_to_string a = nat_to_string b -> a = b.
Proof.
  intros H. rewrite !nat_to_string_digits in H.
  rewrite <- (value_digits (S a) a), <- (value_digits (S b) b) by lia. now rewrite H.
Qed.

Lemma append_inj_l p a b : p +++ a = p +++ b -> a = b.
Proof. induction p as [|x p IH]; cbn; intros H; [exact H|]. inversion H. auto. Qed.

(** bindings of distinct positions differ *)
Theorem make_ident_index_inj prefix i j :
  make_ident prefix (MIndex i) = make_ident prefix (MIndex j) -> i = j.
Proof.
  unfold make_ident. intros H. apply append_inj_l in H. apply append_inj_l in H. now apply nat_to_string_inj.
Qed.

(** so the bindings of the fields of one variant are pairwise distinct as soon as the positions are *)
Theorem binders_nodup prefix (fs : list fld) :
  NoDup (map fl_index fs) -> NoDup (binders prefix fs).
Proof.
  unfold binders. induction fs as [|f fs IH]; cbn; intros H; [constructor|].
  inversion H as [|x l Hn Hd]; subst. constructor; [|now apply IH].
  intros Hin. apply in_map_iff in Hin as (g & Hg & Hin).
  assert (Hi : make_ident prefix (MIndex (fl_index g)) = make_ident prefix (MIndex (fl_index f))).
  { exact (f_equal (fun l => match l with [TI s] => s | _ => EmptyString end) Hg). }
  apply make_ident_index_inj in Hi. apply Hn. rewrite <- Hi. now apply in_map.
Qed.
