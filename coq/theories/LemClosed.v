(** * LemClosed: the templates of RenderOut.v are closed (C13)

    Every token of a rendered impl is either from a closed vocabulary — punctuation, delimiters,
    literals, keywords, segments of absolute `::core` paths and method names reached through them,
    identifiers and lifetimes of the reserved `__` namespace — or a token of a piece the USER wrote
    (a type, a name, a `key` / `by` / `default` expression, the declared generics, a bound).
    This is proved for every IR value, i.e. for every item, every trait and every combination of
    helper attributes, not for a sample of skeletons. *)
From DX Require Import Syntax Tables Render GenBound GenAttrs IR RenderOut.

Definition reserved (s : string) : bool :=
  match s with String a (String b _) => Ascii.eqb a "_" && Ascii.eqb b "_" | _ => false end.

(** identifiers a template may contain besides reserved ones *)
Definition allowed : list string :=
  ["impl"; "for"; "where"; "fn"; "trait"; "match"; "let"; "mut"; "return"; "type"; "const"; "as"; "self"; "Self"; "automatically_derived";
   "allow"; "clippy"; "double_parens"; "unused_parens"; "core"; "ops"; "cmp"; "hash"; "fmt"; "clone"; "default"; "marker";
   "option"; "convert"; "primitive"; "Fn"; "Sized"; "Eq"; "Ord"; "PartialEq"; "PartialOrd"; "Hash"; "Hasher"; "Clone"; "Copy"; "Debug";
   "Default"; "Deref"; "DerefMut"; "Into"; "PhantomData"; "Option"; "Some"; "Ordering"; "Equal"; "Formatter"; "Result"; "Output"; "Target";
   "eq"; "partial_cmp"; "cmp"; "deref"; "deref_mut"; "into"; "map"; "reverse"; "finish"; "field"; "debug_struct";
   "debug_tuple"; "stringify"; "unreachable"; "clone_from"; "bool"; "usize"; "true"; "false"; "T";
   "Add"; "BitAnd"; "BitOr"; "BitXor"; "Div"; "Mul"; "Rem"; "Shl"; "Shr"; "Sub"; "Neg"; "Not";
   "AddAssign"; "BitAndAssign"; "BitOrAssign"; "BitXorAssign"; "DivAssign"; "MulAssign"; "RemAssign"; "ShlAssign";
   "ShrAssign"; "SubAssign"; "add"; "bitand"; "bitor"; "bitxor"; "div"; "mul"; "rem"; "shl"; "shr"; "sub"; "neg"; "not";
   "_"; "add_assign"; "bitand_assign"; "bitor_assign"; "bitxor_assign"; "div_assign"; "mul_assign"; "rem_assign"; "shl_assign";
   "shr_assign"; "sub_assign"; "dyn"].

(** the closed vocabulary: everything that is not an identifier or a lifetime, and the identifiers /
    lifetimes that are keywords, absolute-path vocabulary or reserved *)
Definition closed (t : tok) : bool :=
  match t with
  | TI s => reserved s || str_mem s allowed
  | TLt s => reserved s
  | _ => true
  end.

Lemma make_ident_reserved prefix m : reserved prefix = true -> reserved (make_ident prefix m) = true.
Proof.
  intros H. unfold make_ident. destruct prefix as [|c1 [|c2 rest]]; try discriminate H. destruct m; exact H.
Qed.

Section Closed.
  (** [user t]: token [t] may come from the user's program *)
  Variable user : tok -> Prop.
  Definition ok (t : tok) : Prop := closed t = true \/ user t.
  Definition TOk (l : toks) : Prop := Forall ok l.

  Lemma Ok_app a b : TOk a -> TOk b -> TOk (a ++ b).
  Proof. intros; apply Forall_app; split; assumption. Qed.
  Lemma Ok_cons t l : ok t -> TOk l -> TOk (t :: l).
  Proof. intros; constructor; assumption. Qed.
  Lemma Ok_closed l : forallb closed l = true -> TOk l.
  Proof. intros H. apply Forall_forall. intros t Ht. left. eapply forallb_forall in H; eassumption. Qed.
  Lemma ok_closed t : closed t = true -> ok t.
  Proof. intros; left; assumption. Qed.
  Lemma Ok_tparen l : TOk l -> TOk (tparen l).
  Proof. intros H. unfold tparen. apply Ok_cons; [now left|]. apply Ok_app; [exact H|]. apply Ok_cons; [now left|constructor]. Qed.
  Lemma Ok_tbrace l : TOk l -> TOk (tbrace l).
  Proof. intros H. unfold tbrace. apply Ok_cons; [now left|]. apply Ok_app; [exact H|]. apply Ok_cons; [now left|constructor]. Qed.
  Lemma Ok_concat ls : Forall TOk ls -> TOk (concat ls).
  Proof. induction 1; cbn; [constructor|]. apply Ok_app; assumption. Qed.
  Lemma Ok_sep_by s ls : TOk s -> Forall TOk ls -> TOk (sep_by s ls).
  Proof.
    intros Hs H. induction H as [|x l Hx Hl IH]; cbn; [constructor|].
    destruct l; [exact Hx|]. apply Ok_app; [exact Hx|]. apply Ok_app; [exact Hs|exact IH].
  Qed.
  Lemma Ok_term_by s ls : TOk s -> Forall TOk ls -> TOk (term_by s ls).
  Proof.
    intros Hs H. unfold term_by. apply Ok_concat. induction H; cbn; constructor; [apply Ok_app|]; assumption.
  Qed.
  Lemma Forall_map_in {A B} (P : B -> Prop) (f : A -> B) l : (forall x, In x l -> P (f x)) -> Forall P (map f l).
  Proof. intros H. apply Forall_forall. intros y Hy. apply in_map_iff in Hy as (x & <- & Hx). auto. Qed.
  Lemma Forall_In {A} (P : A -> Prop) l x : Forall P l -> In x l -> P x.
  Proof. intros H Hx. rewrite Forall_forall in H. exact (H x Hx). Qed.

  Lemma ok_make_ident p m : reserved p = true -> ok (TI (make_ident p m)).
  Proof. intros H. left. cbn. now rewrite make_ident_reserved. Qed.

  Lemma Ok_trait_path k : TOk (trait_path k).
  Proof. apply Ok_closed. destruct k as [o|o|o|o| | | | | | ]; try destruct o; reflexivity. Qed.
  Lemma ok_binop_func o : ok (TI (binop_func o)).
  Proof. left. destruct o; reflexivity. Qed.
  Lemma ok_binop_assign o : ok (TI (binop_func o +++ "_assign")).
  Proof. left. destruct o; reflexivity. Qed.
  Lemma ok_unop_func o : ok (TI (unop_func o)).
  Proof. left. destruct o; reflexivity. Qed.
  Lemma Ok_binop_path o : TOk (core_path ["core"; "ops"; binop_to_str o]).
  Proof. apply Ok_closed. destruct o; reflexivity. Qed.
  Lemma Ok_binop_assign_path o : TOk (core_path ["core"; "ops"; binop_to_str o +++ "Assign"]).
  Proof. apply Ok_closed. destruct o; reflexivity. Qed.
  Lemma Ok_nat n : TOk [TL n].
  Proof. apply Ok_closed. reflexivity. Qed.

  (** *** the user-supplied pieces *)
  Definition dbg_name (m : member) : toks := match m with MNamed s => [TI (unraw s)] | m => r_member m end.
  Definition fld_ok (f : fld) : Prop :=
    TOk (r_ty (fl_ty f)) /\ TOk (r_member (fl_member f)) /\ TOk (dbg_name (fl_member f)).
  Definition arm_ok (a : string * shape * list fld) : Prop := ok (TI (fst (fst a))) /\ Forall fld_ok (snd a).
  Definition cexpr_ok (e : cmp_expr) : Prop :=
    match e with CEDefault _ => True | CEKey k => TOk k | CEBy _ b => TOk b end.
  Definition cmp_ok (c : cmp_field) : Prop := fld_ok (cf_fld c) /\ cexpr_ok (cf_expr c).
  Definition dbg_ok (d : debug_body) : Prop :=
    match d with
    | DbgTransparent f => fld_ok f
    | DbgFields name _ fs => ok (TI (unraw name)) /\ Forall fld_ok fs
    end.
  Definition dv_ok (v : dvalue) : Prop :=
    match v with DVInto t e => TOk (r_ty t) /\ TOk e | DVExpr e => TOk e | DVDefault t => TOk (r_ty t) end.
  Definition qchk_ok (x : fld * eq_check) : Prop :=
    fld_ok (fst x) /\ match snd x with QKey k => TOk k | _ => True end.

  Definition body_ok (b : body) : Prop :=
    match b with
    | BDeref t m | BDerefMut t m => TOk (r_ty t) /\ TOk (r_member m)
    | BCopy => True
    | BCloneStruct name _ fs => ok (TI name) /\ Forall fld_ok fs
    | BCloneEnum vs => Forall arm_ok vs
    | BDebugStruct d _ => dbg_ok d
    | BDebugEnum vs => Forall (fun x => arm_ok (fst x) /\ dbg_ok (snd x)) vs
    | BDefaultSelf v => dv_ok v
    | BDefaultCtor path _ vs =>
        Forall (fun n => ok (TI n)) path /\ Forall (fun x => TOk (r_member (fst x)) /\ dv_ok (snd x)) vs
    | BBin _ _ _ name _ fs | BUn _ _ name _ fs => ok (TI name) /\ Forall fld_ok fs
    | BAssign _ _ fs => Forall fld_ok fs
    | BPartialEqStruct cs | BPartialOrdStruct cs | BOrdStruct cs | BHashStruct cs => Forall cmp_ok cs
    | BPartialEqEnum vs | BPartialOrdEnum vs | BOrdEnum vs | BHashEnum vs =>
        Forall (fun x => arm_ok (fst x) /\ Forall cmp_ok (snd x)) vs
    | BEqStruct cs => Forall qchk_ok cs
    | BEqEnum tyname vs => ok (TI tyname) /\ Forall (fun x => arm_ok (fst x) /\ Forall qchk_ok (snd x)) vs
    end.

  Definition hdr_ok (h : impl_hdr) : Prop :=
    TOk (r_impl_g (ih_generics h)) /\ TOk (r_ty (ih_this h)) /\
    Forall (fun t => TOk (r_ty t)) (ih_wtypes h) /\ Forall (fun p => TOk (r_wpred p)) (ih_wpreds h).

  (** *** the closure tactic *)
  Ltac okc := solve [apply Ok_closed; vm_compute; reflexivity].
  Ltac ok1 :=
    match goal with
    | |- TOk [] => constructor
    | |- TOk (trait_path _) => apply Ok_trait_path
    | |- TOk (_ ++ _) => apply Ok_app
    | |- TOk (tparen _) => apply Ok_tparen
    | |- TOk (tbrace _) => apply Ok_tbrace
    | |- TOk (sep_by _ _) => apply Ok_sep_by
    | |- TOk (term_by _ _) => apply Ok_term_by
    | |- TOk (concat _) => apply Ok_concat
    | |- TOk (_ :: _) => apply Ok_cons
    | |- ok (TI (make_ident _ _)) => apply ok_make_ident; reflexivity
    | |- ok (TI (binop_func _ +++ "_assign")) => apply ok_binop_assign
    | |- ok (TI (binop_func _)) => apply ok_binop_func
    | |- ok (TI (unop_func _)) => apply ok_unop_func
    | |- ok (TL _) => left; reflexivity
    | |- ok (TP _) => left; reflexivity
    | |- ok (TO _) => left; reflexivity
    | |- ok (TC _) => left; reflexivity
    | |- ok (TI ?s) => solve [left; vm_compute; reflexivity]
    | |- ok (TLt ?s) => solve [left; vm_compute; reflexivity]
    | |- Forall TOk (map _ _) => apply Forall_map_in; intros ? ?
    | |- Forall TOk [] => constructor
    | |- Forall TOk (_ :: _) => constructor
    | |- Forall TOk ?l => assumption
    | |- TOk ?l => assumption
    | |- TOk ?l => okc
    | |- ok ?t => assumption
    end.
  Ltac oks := repeat ok1.

  Lemma Ok_ref_target t : TOk (r_ty t) -> TOk (ref_target t).
  Proof. intros H. unfold ref_target. destruct t; try exact H. destruct bs as [|? [|? ?]]; try exact H. now apply Ok_tparen. Qed.
  Lemma Ok_with_ref r l : TOk l -> TOk (with_ref r l).
  Proof. intros H. unfold with_ref. destruct r; [|exact H]. apply Ok_cons; [now left|exact H]. Qed.
  Lemma Ok_with_ref_ty r t : TOk (r_ty t) -> TOk (with_ref_ty r t).
  Proof. intros H. unfold with_ref_ty. destruct r; [|exact H]. apply Ok_cons; [now left|]. now apply Ok_ref_target. Qed.

  Lemma Ok_where_item form tr t : TOk tr -> TOk (r_ty t) -> TOk (r_where_item form tr t).
  Proof.
    intros Htr Ht. pose proof (Ok_ref_target t Ht) as Hr. unfold r_where_item. cbv zeta.
    destruct form as [|[] []|[]|[]]; oks.
  Qed.

  Lemma Ok_wheres h : hdr_ok h -> TOk (r_wheres h).
  Proof.
    intros (_ & _ & Hw & Hp). unfold r_wheres. cbv zeta.
    assert (Forall TOk (map (r_where_item (ih_wform h) (trait_path (ih_trait h))) (ih_wtypes h) ++ map r_wpred (ih_wpreds h))) as H.
    { apply Forall_app; split; apply Forall_map_in; intros x Hx.
      - apply Ok_where_item; [apply Ok_trait_path|]. exact (Forall_In _ _ _ Hw Hx).
      - exact (Forall_In _ _ _ Hp Hx). }
    destruct (_ ++ _); [constructor|]. apply Ok_cons; [left; reflexivity|]. apply Ok_term_by; [okc|exact H].
  Qed.

  Lemma Ok_hdr h : hdr_ok h -> TOk (r_hdr h).
  Proof.
    intros Hh. pose proof (Ok_wheres h Hh) as Hw. destruct Hh as (Hg & Ht & _ & _). unfold r_hdr.
    oks; try (destruct (ih_allow h); okc).
    - destruct (ih_rhs h); oks. apply Ok_with_ref; exact Ht.
    - apply Ok_with_ref; exact Ht.
  Qed.

  Lemma Ok_self_dot base m : ok (TI base) -> TOk (r_member m) -> TOk (self_dot base m).
  Proof. intros. unfold self_dot. oks. Qed.

  Lemma Ok_ufcs t tr f args : TOk t -> TOk tr -> ok (TI f) -> Forall TOk args -> TOk (ufcs t tr f args).
  Proof. intros. unfold ufcs. oks. Qed.

  Lemma Ok_ctor_args sh fs vals :
    Forall fld_ok fs -> Forall TOk vals -> TOk (ctor_args sh fs vals).
  Proof.
    intros Hf Hv. unfold ctor_args. destruct sh; [apply Ok_tbrace, Ok_concat | oks | constructor].
    revert vals Hv. induction Hf as [|f fs Hf1 Hfs IH]; intros vals Hv; cbn; [constructor|].
    destruct vals as [|v vals]; cbn; [constructor|]. inversion Hv; subst. constructor; [|apply IH; assumption].
    destruct Hf1 as (_ & Hm & _). oks.
  Qed.

  Lemma Forall_binders p fs : reserved p = true -> Forall TOk (binders p fs).
  Proof. intros H. unfold binders. apply Forall_map_in. intros f _. apply Ok_cons; [now apply ok_make_ident|constructor]. Qed.

  Lemma Ok_make_pat sp p arm : TOk sp -> reserved p = true -> arm_ok arm -> TOk (make_pat sp p arm).
  Proof.
    intros Hs Hp Ha. unfold make_pat. destruct arm as [[v sh] fs]. destruct Ha as [Hv Hf]. cbn in Hv, Hf.
    oks. apply Ok_ctor_args; [exact Hf | now apply Forall_binders].
  Qed.

  Lemma Ok_make_pat_wildcard arm : arm_ok arm -> TOk (make_pat_wildcard arm).
  Proof. intros [Hv _]. unfold make_pat_wildcard. destruct arm as [[v sh] fs]. cbn in Hv. oks. destruct sh; okc. Qed.

  Lemma Ok_match_self {A} (vs : list A) : TOk (match_self vs).
  Proof. unfold match_self. destruct vs; okc. Qed.

  Lemma Ok_clone_struct name sh fs : ok (TI name) -> Forall fld_ok fs -> TOk (r_clone_struct name sh fs).
  Proof.
    intros Hn Hf. unfold r_clone_struct. oks.
    - apply Ok_ctor_args; [exact Hf|]. apply Forall_map_in. intros f Hin.
      destruct (Forall_In _ _ _ Hf Hin) as (Ht & Hm & _). apply Ok_ufcs; oks. now apply Ok_self_dot; oks.
    - destruct (Forall_In _ _ _ Hf H) as (Ht & Hm & _). apply Ok_ufcs; oks; now apply Ok_self_dot; oks.
  Qed.

  Lemma Ok_clone_enum vs : Forall arm_ok vs -> TOk (r_clone_enum vs).
  Proof.
    intros Hv. unfold r_clone_enum. cbv zeta. oks; try apply Ok_match_self.
    - pose proof (Forall_In _ _ _ Hv H) as Ha. destruct x as [[v sh] fs]. destruct Ha as [Hn Hf]. cbn in Hn, Hf.
      oks; [apply Ok_make_pat; [okc|reflexivity|split; assumption]|].
      apply Ok_ctor_args; [exact Hf|]. apply Forall_map_in. intros f Hin.
      destruct (Forall_In _ _ _ Hf Hin) as (Ht & _). apply Ok_ufcs; oks.
    - pose proof (Forall_In _ _ _ Hv H) as Ha. destruct x as [[v sh] fs]. pose proof Ha as [Hn Hf]. cbn in Hn, Hf.
      oks; try (apply Ok_make_pat; [okc|reflexivity|exact Ha]).
      destruct (Forall_In _ _ _ Hf H0) as (Ht & _). apply Ok_ufcs; oks.
  Qed.

  Lemma Ok_debug_expr d place :
    dbg_ok d -> (forall f, fld_ok f -> TOk (place f)) -> TOk (r_debug_expr d place).
  Proof.
    intros Hd Hp. unfold r_debug_expr. destruct d as [f|name sh fs]; cbn in Hd.
    - oks. now apply Hp.
    - destruct Hd as [Hn Hf]. cbv zeta. oks.
      + destruct sh; left; reflexivity.
      + destruct (Forall_In _ _ _ Hf H) as (_ & _ & Hd). destruct sh; oks. unfold dbg_name in Hd. destruct (fl_member x); exact Hd.
      + apply Hp. exact (Forall_In _ _ _ Hf H).
  Qed.

  Lemma Ok_dvalue v : dv_ok v -> TOk (r_dvalue v).
  Proof. intros H. unfold r_dvalue. destruct v; cbn in H; [destruct H|..]; oks. apply Ok_ufcs; oks. Qed.

  Lemma Ok_ctor_args_m sh (vs : list (member * toks)) :
    Forall (fun x => TOk (r_member (fst x)) /\ TOk (snd x)) vs -> TOk (ctor_args_m sh vs).
  Proof.
    intros H. unfold ctor_args_m. destruct sh; oks.
    - destruct x as [m v]. destruct (Forall_In _ _ _ H H0) as [Hm Hv]. cbn in Hm, Hv. oks.
    - destruct (Forall_In _ _ _ H H0) as [_ Hv]. exact Hv.
  Qed.

  Lemma Ok_place_of sk base f :
    TOk (r_member (fl_member f)) -> TOk (place_of sk base f).
  Proof.
    intros Hm. unfold place_of. destruct sk; oks.
    - apply Ok_self_dot; [|exact Hm]. destruct (String.eqb base "self") eqn:E.
      + apply String.eqb_eq in E. subst. left; reflexivity.
      + left. cbn. reflexivity.
  Qed.

  Lemma Ok_apply_template k v : TOk k -> TOk v -> TOk (apply_template k v).
  Proof.
    intros Hk Hv. unfold apply_template. induction Hk as [|t k Ht Hk IH]; cbn; [constructor|].
    apply Ok_app; [|exact IH]. destruct t; try (apply Ok_cons; [exact Ht|constructor]).
    destruct (String.eqb s placeholder); [exact Hv|]. apply Ok_cons; [exact Ht|constructor].
  Qed.

  Lemma Ok_cmp_expr op sk c : cmp_ok c -> TOk (r_cmp_expr op sk c).
  Proof.
    intros [(Ht & Hm & _) He]. unfold r_cmp_expr. cbv zeta.
    pose proof (Ok_place_of sk "self" (cf_fld c) Hm) as Hthis.
    pose proof (Ok_place_of sk "other" (cf_fld c) Hm) as Hother.
    destruct op.
    - (* Ord *)
      destruct (cf_expr c) as [t|k|o b]; cbn in He; destruct (cf_reverse c); oks; now apply Ok_apply_template.
    - (* PartialOrd *)
      destruct (cf_expr c) as [t|k|o b]; cbn in He; [| |destruct o]; destruct (cf_reverse c); oks;
        now apply Ok_apply_template.
    - (* Eq *) constructor.
    - (* PartialEq *)
      destruct (cf_expr c) as [t|k|o b]; cbn in He; [oks|oks; now apply Ok_apply_template|].
      destruct o; oks.
    - (* Hash *)
      destruct (cf_expr c) as [t|k|o b]; cbn in He; [oks|oks; now apply Ok_apply_template|oks].
  Qed.

  Lemma Ok_cmp_fields op sk cs : Forall cmp_ok cs -> TOk (r_cmp_fields op sk cs).
  Proof.
    intros H. unfold r_cmp_fields. destruct op.
    - oks. apply Ok_cmp_expr. exact (Forall_In _ _ _ H H0).
    - oks. apply Ok_cmp_expr. exact (Forall_In _ _ _ H H0).
    - constructor.
    - destruct cs; [okc|]. apply Ok_sep_by; [okc|]. apply Forall_map_in. intros c0 Hc. apply Ok_tparen.
      apply Ok_cmp_expr. exact (Forall_In _ _ _ H Hc).
    - oks. apply Ok_cmp_expr. exact (Forall_In _ _ _ H H0).
  Qed.

  Lemma Ok_index_arms vs i : Forall arm_ok vs -> TOk (index_arms vs i).
  Proof.
    intros H. revert i. induction H as [|a vs Ha Hvs IH]; intros i; cbn; [constructor|].
    oks; [now apply Ok_make_pat_wildcard | apply IH].
  Qed.

  Lemma Ok_to_index_fn vs : Forall arm_ok vs -> TOk (to_index_fn vs).
  Proof. intros H. unfold to_index_fn. oks. now apply Ok_index_arms. Qed.

  Lemma Forall_arm_of {A} (P : A -> Prop) (vs : list (string * shape * list fld * A)) :
    Forall (fun x => arm_ok (fst x) /\ P (snd x)) vs -> Forall arm_ok (map arm_of vs).
  Proof. intros H. apply Forall_map_in. intros x Hx. exact (proj1 (Forall_In _ _ _ H Hx)). Qed.

  Lemma Ok_cmp_enum op vs :
    Forall (fun x => arm_ok (fst x) /\ Forall cmp_ok (snd x)) vs -> TOk (r_cmp_enum op vs).
  Proof.
    intros H. pose proof (Forall_arm_of _ _ H) as Harms. unfold r_cmp_enum. cbv zeta.
    assert (Hpat : forall p x, In x vs -> reserved p = true -> TOk (make_pat [TI "Self"] p (arm_of x))).
    { intros p x Hx Hp. apply Ok_make_pat; [okc|exact Hp|exact (proj1 (Forall_In _ _ _ H Hx))]. }
    assert (Hflds : forall x, In x vs -> TOk (r_cmp_fields op SKEnum (snd x))).
    { intros x Hx. apply Ok_cmp_fields. exact (proj2 (Forall_In _ _ _ H Hx)). }
    destruct op; oks;
      first [ now apply Ok_to_index_fn | (apply Hpat; [assumption|reflexivity]) | (apply Hflds; assumption) ].
  Qed.

  Lemma Ok_eq_check sk x : qchk_ok x -> TOk (r_eq_check sk x).
  Proof.
    intros [(Ht & Hm & _) Hk]. unfold r_eq_check. cbv zeta.
    pose proof (Ok_place_of sk "this" (fst x) Hm) as Hthis.
    destruct (snd x); oks. now apply Ok_apply_template.
  Qed.

  (** ** every token of a rendered impl is closed or the user's *)
  Theorem Ok_body h b : hdr_ok h -> body_ok b -> TOk (r_body h b).
  Proof.
    intros Hh Hb. pose proof Hh as (Hg & Hthis & _ & _). unfold r_body. cbv zeta.
    destruct b; cbn [body_ok] in Hb.
    - destruct Hb. oks.
    - destruct Hb. oks.
    - constructor.
    - destruct Hb. now apply Ok_clone_struct.
    - now apply Ok_clone_enum.
    - oks.
      + destruct dbl; [okc | constructor].
      + apply Ok_debug_expr; [exact Hb|]. intros f (_ & Hm & _).
        destruct dbl as [i|]; [destruct (fl_index f =? i)|]; oks; okc.
    - oks; [apply Ok_match_self | |]; destruct (Forall_In _ _ _ Hb H) as [Ha Hd].
      + apply Ok_make_pat; [okc|reflexivity|exact Ha].
      + apply Ok_debug_expr; [exact Hd|]. intros f _. oks.
    - oks. now apply Ok_dvalue.
    - destruct Hb as [Hp Hv]. oks.
      + exact (Forall_In _ _ _ Hp H).
      + apply Ok_ctor_args_m. apply Forall_map_in. intros [m v] Hx. destruct (Forall_In _ _ _ Hv Hx) as [Hm Hd].
        cbn in *. split; [exact Hm|now apply Ok_dvalue].
    - destruct Hb as [Hn Hf]. oks; try (apply Ok_with_ref; exact Hthis).
      apply Ok_ctor_args; [exact Hf|]. apply Forall_map_in. intros f Hin.
      destruct (Forall_In _ _ _ Hf Hin) as (Ht & Hm & _). cbv zeta.
      apply Ok_ufcs; oks; try (apply Ok_with_ref_ty; exact Ht); apply Ok_with_ref; apply Ok_self_dot; oks.
    - oks; try (apply Ok_with_ref; exact Hthis).
      destruct (Forall_In _ _ _ Hb H) as (Ht & Hm & _). cbv zeta.
      apply Ok_ufcs; oks; try (apply Ok_with_ref_ty; exact Ht); try (apply Ok_with_ref); apply Ok_self_dot; oks.
    - destruct Hb as [Hn Hf]. oks.
      apply Ok_ctor_args; [exact Hf|]. apply Forall_map_in. intros f Hin.
      destruct (Forall_In _ _ _ Hf Hin) as (Ht & Hm & _).
      apply Ok_ufcs; oks; try (apply Ok_with_ref_ty; exact Ht); apply Ok_with_ref; apply Ok_self_dot; oks.
    - oks. now apply Ok_cmp_fields.
    - oks. now apply Ok_cmp_enum.
    - oks. now apply Ok_cmp_fields.
    - oks. now apply Ok_cmp_enum.
    - oks. now apply Ok_cmp_fields.
    - oks. now apply Ok_cmp_enum.
    - oks. now apply Ok_cmp_fields.
    - oks. now apply Ok_cmp_enum.
    - constructor.
    - constructor.
  Qed.

  Theorem Ok_eq_checker h b :
    hdr_ok h -> body_ok b -> match r_eq_checker h b with Some c => TOk c | None => True end.
  Proof.
    intros Hh Hb. pose proof (Ok_wheres h Hh) as Hw. pose proof Hh as (Hg & Hthis & _ & _).
    unfold r_eq_checker. cbv zeta. destruct b; try exact I; cbn [body_ok] in Hb; cbv beta iota.
    - oks. apply Ok_eq_check. exact (Forall_In _ _ _ Hb H).
    - destruct Hb as [Hn Hv]. oks; destruct (Forall_In _ _ _ Hv H) as [Ha Hq].
      + apply Ok_make_pat; [oks|reflexivity|exact Ha].
      + apply Ok_eq_check. exact (Forall_In _ _ _ Hq H0).
  Qed.

  (** operators derived from an `impl` item *)
  Definition op_ok (o : op_ir) : Prop :=
    match o with
    | OpBin g _ this rhs output _ _ _ _ =>
        TOk (r_impl_g g) /\ TOk (r_where_decl g) /\ TOk (r_ty this) /\ TOk (r_ty rhs) /\ TOk (r_ty output)
    | OpAssignFromBin g _ this rhs _ | OpBinFromAssign g _ this rhs =>
        TOk (r_impl_g g) /\ TOk (r_where_decl g) /\ TOk (r_ty this) /\ TOk (r_ty rhs)
    end.

  Lemma Ok_change_owned e t i o : TOk e -> TOk t -> TOk (change_owned e t i o).
  Proof. intros. unfold change_owned. destruct i, o; oks. apply Ok_ufcs; oks. Qed.

  Theorem Ok_op_ir o : op_ok o -> TOk (fst (r_op_ir o)) /\ TOk (snd (r_op_ir o)).
  Proof.
    intros H. unfold r_op_ir, r_where_g. destruct o; cbn [op_ok] in H; cbv zeta; cbn [fst snd].
    - destruct H as (Hg & Hw & Ht & Hr & Ho). split.
      + oks; try apply Ok_binop_path; first [apply Ok_with_ref_ty | apply Ok_ref_target | apply Ok_with_ref]; assumption.
      + oks; try (first [apply Ok_with_ref_ty | apply Ok_ref_target | apply Ok_with_ref]; assumption).
        apply Ok_ufcs; oks; try apply Ok_binop_path; try (first [apply Ok_with_ref_ty | apply Ok_ref_target | apply Ok_with_ref]; assumption);
          apply Ok_change_owned; oks.
    - destruct H as (Hg & Hw & Ht & Hr). split.
      + oks; apply Ok_binop_assign_path.
      + oks. apply Ok_ufcs; oks; try apply Ok_binop_path; try (first [apply Ok_with_ref_ty | apply Ok_ref_target | apply Ok_with_ref]; assumption).
        apply Ok_change_owned; oks.
    - destruct H as (Hg & Hw & Ht & Hr). split.
      + oks; apply Ok_binop_path.
      + oks. apply Ok_ufcs; oks; apply Ok_binop_assign_path.
  Qed.
End Closed.
