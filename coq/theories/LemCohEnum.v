(** * LemCohEnum: positions of variants *)
From DX Require Import Syntax Tables GenAttrs SemCmp SpecCmp.

Section Pos.
  Variable V : Type.
  Notation position := (position).
  Lemma position_ge vs name k i : position vs name k = Some i -> k <= i.
  Proof.
    revert k. induction vs as [|v vs IH]; intros k; cbn [SpecCmp.position]; [discriminate|].
    destruct (String.eqb (v_name (ve_variant v)) name); [intros [= <-]; apply le_n|].
    intros H. apply IH in H. apply le_S_n. apply le_S. exact H.
  Qed.

  (** two names with the same position are the same name *)
  Lemma position_inj vs n1 n2 k i :
    position vs n1 k = Some i -> position vs n2 k = Some i -> n1 = n2.
  Proof.
    revert k. induction vs as [|v vs IH]; intros k; cbn [SpecCmp.position]; [discriminate|].
    destruct (String.eqb (v_name (ve_variant v)) n1) eqn:E1, (String.eqb (v_name (ve_variant v)) n2) eqn:E2.
    - intros _ _. apply String.eqb_eq in E1, E2. congruence.
    - intros [= <-] H. apply position_ge in H. exfalso. exact (Nat.nle_succ_diag_l _ H).
    - intros H [= <-]. apply position_ge in H. exfalso. exact (Nat.nle_succ_diag_l _ H).
    - apply IH.
  Qed.

  (** a name has a position iff a variant carries it; that variant is in the list *)
  Lemma position_variant vs name k i :
    position vs name k = Some i -> exists v, variant_named vs name = Some v /\ In v vs.
  Proof.
    revert k. unfold variant_named. induction vs as [|v vs IH]; intros k; cbn [SpecCmp.position find]; [discriminate|].
    destruct (String.eqb (v_name (ve_variant v)) name).
    - intros _. exists v. split; [reflexivity | left; reflexivity].
    - intros H. destruct (IH _ H) as (w & Hw & Hin). exists w. split; [exact Hw | right; exact Hin].
  Qed.
End Pos.
