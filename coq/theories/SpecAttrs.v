(** * SpecAttrs: which attributes belong to derive_ex — written from doc/derive_ex.md only.

    "To avoid repeating settings, one helper attribute affects multiple traits.
     The table below shows which helper attributes affect which trait."

    | attribute             | Ord | PartialOrd | Eq | PartialEq | Hash |
    | #[ord(...)]           | x   | x          | x  | x         | x    |
    | #[partial_ord(...)]   |     | x          |    | x         |      |
    | #[eq(...)]            |     |            | x  | x         | x    |
    | #[partial_eq(...)]    |     |            | (x)| x         |      |
    | #[hash(...)]          |     |            |    |           | x    |

    One deviation from the table: the cell (partial_eq, Eq).  The repository's own expected
    diagnostics (tests/compile_fail/compare_op/eq_with_partial_eq_{ignore,key,by}.stderr) say
    that `#[partial_eq(..)]` does not configure `Eq`; the specification follows those. *)
From DX Require Import Syntax Tables.

Definition affects (a tr : cmpop) : bool :=
  match a, tr with
  | COrd, _ => true
  | CPartialOrd, (CPartialOrd | CPartialEq) => true
  | CEq, (CEq | CPartialEq | CHash) => true
  | CPartialEq, CPartialEq => true
  | CHash, CHash => true
  | _, _ => false
  end.

Definition all_cmp : list cmpop := [CPartialEq; CEq; CPartialOrd; COrd; CHash].

Definition derives (S : list kind) (k : kind) : bool := existsb (kind_eqb k) S.

(** "the helper attributes that the documentation assigns to the traits being derived":
    `derive_ex` always; `default` / `debug` with their trait; a comparison helper iff its
    row ticks some derived trait. *)
Definition owned (S : list kind) (a : attr) : bool :=
  match a with
  | AOther _ => false
  | ADeriveEx _ => true
  | ADefault _ => derives S KDefault
  | ADebug _ => derives S KDebug
  | ACmp a _ => existsb (fun tr => derives S (KCmp tr) && affects a tr) all_cmp
  end.

(** the item with exactly the attributes selected by [p] removed at type, variant and field
    positions; every other component, and the order, kept *)
Definition keep_attrs (p : attr -> bool) (l : list attr) : list attr :=
  filter (fun a => negb (p a)) l.

Definition sp_field (p : attr -> bool) (f : field) : field :=
  {| f_attrs := keep_attrs p (f_attrs f); f_vis := f_vis f; f_name := f_name f; f_ty := f_ty f |}.
Definition sp_fields (p : attr -> bool) (fs : fields) : fields :=
  match fs with
  | FNamed l => FNamed (map (sp_field p) l)
  | FUnnamed l => FUnnamed (map (sp_field p) l)
  | FUnit => FUnit
  end.
Definition sp_variant (p : attr -> bool) (v : variant) : variant :=
  {| v_attrs := keep_attrs p (v_attrs v); v_name := v_name v;
     v_fields := sp_fields p (v_fields v); v_discr := v_discr v |}.

Definition strip_item (p : attr -> bool) (i : item) : item :=
  match i with
  | IStruct s =>
      IStruct {| s_attrs := keep_attrs p (s_attrs s); s_vis := s_vis s; s_name := s_name s;
                 s_generics := s_generics s; s_fields := sp_fields p (s_fields s) |}
  | IEnum e =>
      IEnum {| e_attrs := keep_attrs p (e_attrs e); e_vis := e_vis e; e_name := e_name e;
               e_generics := e_generics e; e_variants := map (sp_variant p) (e_variants e) |}
  | IImpl i => IImpl i
  | IOtherItem t => IOtherItem t
  end.

Definition is_derive_ex_attr (a : attr) : bool :=
  match a with ADeriveEx _ => true | _ => false end.
Definition is_helper_attr (a : attr) : bool :=
  match a with AOther _ => false | _ => true end.
