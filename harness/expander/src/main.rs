//! Runs the real derive-ex expansion (from /repo's working tree, linked in-process through
//! the `verif_hooks` module) on the inputs given on stdin and prints the result split into
//! parts, one part per line, as whitespace-independent flat token strings.
//!
//! input  line:  <id> \t A \t <attr tokens> \t <item tokens>      attribute macro
//!               <id> \t D \t             \t <item tokens>      derive macro
//!               <id> \t T \t             \t <any tokens>       tokenise only (prints FLAT)
//! output lines: <id> \t ITEM  \t <tokens>                 re-emitted item (attribute macro, first item)
//!               <id> \t IMPL  \t <header tokens> \t <body tokens>
//!               <id> \t CONST \t <tokens>
//!               <id> \t ERR   \t <message, escaped>
//!               <id> \t DUMP  \t <payload re-lexed to tokens>
//!               <id> \t OTHER \t <tokens>
//!               <id> \t PANIC \t <message>
//!               <id> \t LEXERR \t <message>                 input did not tokenise
//!               <id> \t END   \t <syn::parse_file ok: 0/1> \t <second run identical: 0/1> \t <input item parses: 0/1>
use proc_macro2::{Delimiter, TokenStream, TokenTree};
use std::io::{BufRead, Write};
use std::panic::{catch_unwind, AssertUnwindSafe};

fn flat_into(ts: TokenStream, out: &mut Vec<String>) {
    for t in ts {
        match t {
            TokenTree::Group(g) => {
                let (o, c) = match g.delimiter() {
                    Delimiter::Parenthesis => ("(", ")"),
                    Delimiter::Brace => ("{", "}"),
                    Delimiter::Bracket => ("[", "]"),
                    Delimiter::None => ("", ""),
                };
                if !o.is_empty() {
                    out.push(o.to_string());
                }
                flat_into(g.stream(), out);
                if !c.is_empty() {
                    out.push(c.to_string());
                }
            }
            TokenTree::Ident(i) => out.push(i.to_string()),
            TokenTree::Punct(p) => out.push(p.as_char().to_string()),
            TokenTree::Literal(l) => out.push(l.to_string()),
        }
    }
}
fn flat(ts: TokenStream) -> String {
    let mut v = Vec::new();
    flat_into(ts, &mut v);
    v.join(" ")
}
fn esc(s: &str) -> String {
    s.replace('\\', "\\\\")
        .replace('\n', "\\n")
        .replace('\t', "\\t")
        .replace('\r', "\\r")
}

/// Split a token stream into top-level items without parsing it: an item ends at a
/// top-level `;`, or at a top-level brace group unless the item began with
/// `const` / `static` / `type` / `use` (which end at `;`).
fn split_items(ts: TokenStream) -> Vec<Vec<TokenTree>> {
    let mut items = Vec::new();
    let mut cur: Vec<TokenTree> = Vec::new();
    let mut semi_only = false;
    let mut seen_kw = false;
    for t in ts {
        if !seen_kw {
            if let TokenTree::Ident(i) = &t {
                let s = i.to_string();
                if s != "pub" && s != "crate" && s != "unsafe" {
                    seen_kw = true;
                    semi_only = matches!(s.as_str(), "const" | "static" | "type" | "use");
                }
            }
        }
        let end = match &t {
            TokenTree::Punct(p) => p.as_char() == ';',
            TokenTree::Group(g) => g.delimiter() == Delimiter::Brace && !semi_only,
            _ => false,
        };
        cur.push(t);
        if end {
            items.push(std::mem::take(&mut cur));
            semi_only = false;
            seen_kw = false;
        }
    }
    if !cur.is_empty() {
        items.push(cur);
    }
    items
}

fn first_kw(item: &[TokenTree]) -> String {
    // skip attributes `# [..]` and visibility
    let mut i = 0;
    while i < item.len() {
        match &item[i] {
            TokenTree::Punct(p) if p.as_char() == '#' => {
                i += 2;
                continue;
            }
            TokenTree::Ident(id) => {
                let s = id.to_string();
                if s == "pub" {
                    i += 1;
                    if let Some(TokenTree::Group(g)) = item.get(i) {
                        if g.delimiter() == Delimiter::Parenthesis {
                            i += 1;
                        }
                    }
                    continue;
                }
                if s == "unsafe" {
                    i += 1;
                    continue;
                }
                return s;
            }
            TokenTree::Punct(p) if p.as_char() == ':' => return "::".to_string(),
            _ => return String::new(),
        }
    }
    String::new()
}

/// `:: core :: compile_error ! { "msg" }`  ->  Some(msg)
fn compile_error_msg(item: &[TokenTree]) -> Option<String> {
    let s = flat(item.iter().cloned().collect());
    let p = ": : core : : compile_error ! { ";
    if !s.starts_with(p) {
        return None;
    }
    if let Some(TokenTree::Group(g)) = item.last() {
        let inner: Vec<TokenTree> = g.stream().into_iter().collect();
        if inner.len() == 1 {
            if let TokenTree::Literal(l) = &inner[0] {
                if let Ok(syn::Lit::Str(ls)) = syn::parse_str::<syn::Lit>(&l.to_string()) {
                    return Some(ls.value());
                }
            }
        }
    }
    None
}

fn describe(id: &str, mode: &str, out: TokenStream, w: &mut impl Write) {
    let items = split_items(out);
    for (n, item) in items.iter().enumerate() {
        if let Some(msg) = compile_error_msg(item) {
            if let Some(payload) = msg.strip_prefix("dump:\n") {
                match payload.parse::<TokenStream>() {
                    Ok(ts) => writeln!(w, "{id}\tDUMP\t{}", flat(ts)).unwrap(),
                    Err(e) => writeln!(w, "{id}\tERR\tdump payload does not lex: {}", esc(&e.to_string())).unwrap(),
                }
            } else {
                writeln!(w, "{id}\tERR\t{}", esc(&msg)).unwrap();
            }
            continue;
        }
        let kw = first_kw(item);
        if mode == "A" && n == 0 {
            writeln!(w, "{id}\tITEM\t{}", flat(item.iter().cloned().collect())).unwrap();
        } else if kw == "impl" {
            let (body, header) = item.split_last().unwrap();
            let body_ts = match body {
                TokenTree::Group(g) => g.stream(),
                t => std::iter::once(t.clone()).collect(),
            };
            writeln!(
                w,
                "{id}\tIMPL\t{}\t{}",
                flat(header.iter().cloned().collect()),
                flat(body_ts)
            )
            .unwrap();
        } else if kw == "const" {
            writeln!(w, "{id}\tCONST\t{}", flat(item.iter().cloned().collect())).unwrap();
        } else {
            writeln!(w, "{id}\tOTHER\t{}", flat(item.iter().cloned().collect())).unwrap();
        }
    }
}

fn expand(mode: &str, attr: &str, item: &str) -> Result<Result<TokenStream, String>, String> {
    let attr_ts: TokenStream = attr.parse().map_err(|e: proc_macro2::LexError| e.to_string())?;
    let item_ts: TokenStream = item.parse().map_err(|e: proc_macro2::LexError| e.to_string())?;
    let r = catch_unwind(AssertUnwindSafe(|| match mode {
        "A" => dxlib::verif_hooks::expand_attr(attr_ts, item_ts),
        _ => dxlib::verif_hooks::expand_derive(item_ts),
    }));
    Ok(r.map_err(|e| {
        if let Some(s) = e.downcast_ref::<String>() {
            s.clone()
        } else if let Some(s) = e.downcast_ref::<&str>() {
            s.to_string()
        } else {
            "panic".to_string()
        }
    }))
}

fn main() {
    std::panic::set_hook(Box::new(|_| {}));
    let stdin = std::io::stdin();
    let stdout = std::io::stdout();
    let mut w = std::io::BufWriter::new(stdout.lock());
    for line in stdin.lock().lines() {
        let line = line.unwrap();
        let f: Vec<&str> = line.split('\t').collect();
        if f.len() < 4 {
            continue;
        }
        let (id, mode, attr, item) = (f[0], f[1], f[2], f[3]);
        if mode == "T" {
            match item.parse::<TokenStream>() {
                Ok(ts) => writeln!(w, "{id}\tFLAT\t{}", flat(ts)).unwrap(),
                Err(e) => writeln!(w, "{id}\tLEXERR\t{}", esc(&e.to_string())).unwrap(),
            }
            continue;
        }
        match expand(mode, attr, item) {
            Err(e) => writeln!(w, "{id}\tLEXERR\t{}", esc(&e)).unwrap(),
            Ok(Err(p)) => {
                writeln!(w, "{id}\tPANIC\t{}", esc(&p)).unwrap();
                writeln!(w, "{id}\tEND\t0\t0\t{}", syn::parse_str::<syn::Item>(item).is_ok() as u8).unwrap();
            }
            Ok(Ok(ts)) => {
                let s1 = ts.to_string();
                let parse_ok = syn::parse_file(&s1).is_ok();
                let again = match expand(mode, attr, item) {
                    Ok(Ok(ts2)) => ts2.to_string() == s1,
                    _ => false,
                };
                describe(id, mode, ts, &mut w);
                let input_ok = syn::parse_str::<syn::Item>(item).is_ok();
                writeln!(w, "{id}\tEND\t{}\t{}\t{}", parse_ok as u8, again as u8, input_ok as u8).unwrap();
            }
        }
    }
}
