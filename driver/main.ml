(* Glue around the extracted model: one request per input line, result lines on stdout.
   Coq strings are extracted to `char list` (ExtrOcamlString). *)
let explode (s : string) : char list = List.init (String.length s) (String.get s)
let implode (l : char list) : string =
  let b = Buffer.create 256 in
  List.iter (Buffer.add_char b) l;
  Buffer.contents b

let () =
  let out = Buffer.create (1 lsl 16) in
  (try
     while true do
       let l = input_line stdin in
       if String.length l > 0 then begin
         List.iter
           (fun r -> Buffer.add_string out (implode r); Buffer.add_char out '\n')
           (Model.run_line (explode l));
         if Buffer.length out > (1 lsl 20) then begin
           print_string (Buffer.contents out); Buffer.clear out
         end
       end
     done
   with End_of_file -> ());
  print_string (Buffer.contents out)
