#!/bin/sh
# Build the OCaml driver from the freshly extracted model (coq/model.ml) into .work/driver/
set -e
cd "$(dirname "$0")/.."
mkdir -p .work/driver
cp coq/model.ml coq/model.mli driver/main.ml .work/driver/
cd .work/driver
ocamlfind ocamlopt -w -a -o model_driver model.mli model.ml main.ml
