#!/usr/bin/env python3
"""Regenerates /verif/MANIFEST.json from the table below (run after adding a property)."""
import json, os
ROOT = os.path.dirname(os.path.dirname(os.path.abspath(__file__)))
NOTE = ("Trusted base: Coq 8.16.1 kernel; no axioms (Print Assumptions of every property theorem: Closed under the global context); "
        "extraction via stdlib ExtrOcamlBasic+ExtrOcamlString only; hand-written model tied to /repo by checked correspondence "
        "(L1: token equality of the extracted model's expected expansion vs the real in-process expansion on every run; "
        "L2/L3: rustc-compiled behaviour / verdicts of the real proc-macro vs a model-free oracle); syn/structmeta/quote/proc_macro2 "
        "and rustc are modelled, not verified. See DESIGN.md section 5.")
TECH = 'Coq proof over hand-written model + checked correspondence (token equality, model-free oracle)'
CLAIMED = {
 'C01': ("Full: for every struct/enum, every environment (no law assumed of field impls, key expressions or by functions) and every pair of values, the meaning of the generated eq / partial_cmp / cmp bodies equals the documented rule sp_* (ignored fields skipped; per-field comparator = first attribute, most specific first among those affecting the trait, carrying by/key, converted to the trait at hand, else the field type's own; reverse; first non-equal field decides; different variants by declaration position), and the rule reads only attributes that are parsed identically under any co-derived trait set. Tied to the code by L1 on bodies; real compiled impls checked against a Python reference of the rule on full cartesian value products.", 'DESIGN.md §3 C01'),
 'C05': ("Full: theorem that the fields of a struct/variant are accepted for a trait iff none is rejected by the documented rule (custom behaviour elsewhere with default here; ignore for only some traits; partial_ord(reverse) with Ord), that misplaced ignore/reverse/key/by on types and variants is refused and nothing else is, that refusal is an error message never a panic, and that each requested trait's outcome depends on its own entry only. L1 and the model-free oracle are EXHAUSTIVE over the 3136 x 5 x 3 shapes x 2 entry points grid.", 'DESIGN.md §3 C05'),
 'C06': ("Full at the level of hash() calls: the sequence of Hash::hash calls of the derived impl equals the documented feed (non-ignored fields in order; hash.by > hash.key > eq.key > ord.key > field) for every value; equal effective inputs give identical feeds and the feed determines every effective input. Byte-level claims additionally rest on core::hash (trusted). Tied by L1 on Hash bodies; real impls observed through a recording Hasher against a Python reference.", 'DESIGN.md §3 C06'),
 'C17': ("Full on the obligation set: the hidden checker of the Eq impl creates exactly one `T: Eq` obligation per compared component (the field itself, or the value of its key expression; ignored fields and fields compared with by are exempt), for every variant. That rustc enforces an obligation is trusted and observed: exhaustive accept/reject grid compiled against the real proc-macro.", 'DESIGN.md §3 C17'),
 'C03': ("Full for the where-clause: with every bound level absent the documented resolution collapses (theorem) to the declared predicates plus exactly the types of the used fields that mention a type/const parameter - never a bare parameter, never omitting a used one; which fields are used per trait is the plan of SpecBound.v proved equal to the generator's behaviour (C04 theorems). Tied to the code by L1 on headers for every trait and reference form, checked model-free against a Python reference of the documentation rule. That rustc accepts the impl is sampled by C20, not proved.", 'DESIGN.md §3 C03'),
 'C04': ("Full: for every builder (operators, Clone, Copy, Debug, Default, the five comparison traits, Deref; struct and enum) and every assignment of bound(...) to the up-to-nine levels, the emitted bounded types and predicates equal the documented resolution spec_where (priority order; predicates verbatim; types as Type: Trait; continue only past absent or `..` levels; stops local to a variant/field; field type only at the end of the chain if used and mentioning a parameter; comparison helper attributes most specific first at every placement; declared where-clause always kept). Tied to the code by L1 on headers; checked model-free against a Python reference with one marker predicate per level.", 'DESIGN.md §3 C04'),
 'C14': ("Full: theorems for every item and trait list (re-emitted item = input minus exactly the attributes the documentation assigns to the requested traits, at type/variant/field positions; on failure the item is still emitted; foreign content intact and in order in every case; derive macro re-emits nothing). Tied to the code by L1 on the ITEM part over thousands of generated items and checked model-free by a token-level reference.", 'DESIGN.md §3 C14'),
 'C15': ("Full: theorems for every struct/enum (attribute macro = derive macro on the item carrying the list as its first attribute; one list A++B = two lists A, B with the same shared arguments; an entry's outcome is independent of the co-requested traits whenever no attribute of the item is owned under one list only - ownership being the documentation's table; outcomes in list order). Tied to the code by L1 per group member and checked model-free by real-vs-real metamorphic comparison.", 'DESIGN.md §3 C15'),
 'C16': ("Partial: theorem that no expansion of the modelled generator reaches an unreachable!()/unwrap() site (Panic outcome) and every outcome is impls | error message | dump; termination/determinism of the model by construction. syn/structmeta/quote/proc_macro2 are outside the model: for them the evidence is the structure-aware mutation run over the test-suite/doc corpus (catch_unwind, re-parse, two runs), which is a test.", 'DESIGN.md §3 C16'),
 'C19': ("Full: theorems that a dumped entry (struct, enum, impl item; per-trait or shared flag) is the undumped outcome with impls replaced by their dump, errors unchanged, that the payload is token-for-token the items of the undumped outcome, and that the parsing context of all entries is independent of dump flags. Tied to the code by L1 (payload re-lexed) and checked real-vs-real.", 'DESIGN.md §3 C19'),
 'C18': ("Full: theorems over the model of build_deref_for_struct for every struct shape, entry and bound list (place returned is self.<the single field>, Target = its type, header = user generics/where; #fields != 1 <-> rejection; enums refused), tied to the code by exhaustive L1 over the shape grid and validated by compiled pointer-identity / write-through programs against the real proc-macro.", 'DESIGN.md §3 C18'),
}
props = [json.loads(l) for l in open(os.path.join(ROOT, 'properties.jsonl'))]
checks, na = [], []
for p in props:
    pid = p['id']
    if pid in CLAIMED:
        text, ref = CLAIMED[pid]
        checks.append(dict(property_id=pid, quick_cmd='./check %s --tier quick' % pid,
                           thorough_cmd='./check %s --tier thorough' % pid,
                           evidence_file='/verif/evidence/%s.json' % pid,
                           replay_cmd_template='./check %s --replay {path}' % pid, engine='coq-model',
                           level_claimed=dict(category='proof', text=text, design_ref=ref),
                           level_note=NOTE, technique=TECH))
    else:
        na.append(dict(property_id=pid, reason='not yet claimed in this revision of /verif: theorems and oracle for it are still being built (DESIGN.md §8); the model already covers its code (L1 smoke: 0 mismatches)'))
hooks = dict(guard='--cfg frozenlib_derive_ex_verif',
             enable='harness/.cargo/config.toml sets rustflags --cfg frozenlib_derive_ex_verif; harness/dxlib compiles /repo/derive-ex/src/lib.rs as an rlib exposing verif_hooks::{expand_attr,expand_derive}',
             baseline_off_cmd='cd /repo && (cargo nextest run --workspace --no-fail-fast --offline || cargo test --workspace --no-fail-fast --offline)',
             source_commits=['41bf18f'], add_only=True)
m = dict(version=1, setup_cmd='./setup.sh', hooks=hooks,
         engines=[dict(name='coq-model', path='/verif/coq', serves_properties=sorted(CLAIMED),
                       kind_free_text='Coq 8.16.1 development: hand-written model of the generator, per-property theorems, extracted to OCaml for the correspondence check')],
         checks=checks, not_applicable=na,
         notes='All checks: ./check <id> --tier quick|thorough. Fix commits in /repo: see known_findings.json. See DESIGN.md.')
json.dump(m, open(os.path.join(ROOT, 'MANIFEST.json'), 'w'), indent=1)
print('claimed:', sorted(CLAIMED))
