#!/usr/bin/env python3
"""Evaluate a seeded change: tools/seedtest.py <dir with patch.diff, demo.rs, meta.json> <pid> [more pids | all]

1. confirms the claim: with the patch the existing suite passes and the demo fails; without it the demo passes
2. applies the patch to /repo, runs the given checks (quick tier), reverts, prints what each check said
Nothing is committed to /repo; the working tree is restored with `git checkout -- .` and the demo file removed."""
import json
import os
import re
import subprocess
import sys

REPO = '/repo'
ROOT = os.path.dirname(os.path.dirname(os.path.abspath(__file__)))
DEMO = os.path.join(REPO, 'derive-ex-tests', 'tests', 'seeded_demo.rs')
ALL = ['C%02d' % i for i in range(1, 21)]


def sh(cmd, cwd=None, timeout=3600):
    p = subprocess.run(cmd, cwd=cwd, shell=isinstance(cmd, str), stdout=subprocess.PIPE, stderr=subprocess.STDOUT,
                       text=True, timeout=timeout)
    return p.returncode, p.stdout


def restore():
    sh('git checkout -- .', cwd=REPO)
    if os.path.exists(DEMO):
        os.remove(DEMO)
    sh('git clean -fdq derive-ex-tests', cwd=REPO)     # trybuild-based demos leave case directories behind


def main():
    d = sys.argv[1]
    pids = sys.argv[2:]
    keep = None
    if '--keep' in pids:
        i = pids.index('--keep')
        keep = pids[i + 1]
        del pids[i:i + 2]
    if 'all' in pids:
        pids = ALL
    patch = os.path.join(d, 'patch.diff')
    demo = os.path.join(d, 'demo.rs')
    rep = dict(dir=d, checks={})
    assert sh('git status --porcelain', cwd=REPO)[1].strip() == '', '/repo not clean'
    try:
        # demo without the patch
        if os.path.exists(demo):
            sh(['cp', demo, DEMO])
            rc, out = sh('cargo test --offline -p derive-ex-tests --test seeded_demo 2>&1 | tail -15', cwd=REPO)
            rep['demo_without_patch'] = 'pass' if 'test result: ok' in out else 'FAIL'
            rep['demo_without_tail'] = out[-600:]
        rc, out = sh(['git', 'apply', patch], cwd=REPO)
        if rc != 0:
            rep['apply'] = out
            print(json.dumps(rep, indent=1))
            return 2
        if os.path.exists(demo):
            rc, out = sh('cargo test --offline -p derive-ex-tests --test seeded_demo 2>&1 | tail -25', cwd=REPO)
            rep['demo_with_patch'] = 'pass' if 'test result: ok' in out else 'FAIL'
            rep['demo_with_tail'] = out[-900:]
            os.remove(DEMO)
        rc, out = sh('cargo nextest run --workspace --no-fail-fast --offline 2>&1 | tail -3', cwd=REPO)
        m = re.search(r'(\d+) tests run: (\d+) passed', out)
        rep['suite'] = m.group(0) if m else out[-300:]
        for pid in pids:
            rc, out = sh(['./check', pid, '--tier', 'quick'], cwd=ROOT)
            lines = [l for l in out.split('\n') if l.startswith(('VIOLATION', 'KNOWN-FINDING', 'INTERNAL', '[' + pid + '] tier'))]
            rep['checks'][pid] = dict(exit=rc, lines=[l[:220] for l in lines][:4])
            if rc == 1:
                m = re.search(r'replay=(\S+)', out)
                if m:
                    try:
                        r = json.load(open(os.path.join(ROOT, m.group(1))))
                        rep['checks'][pid]['replay'] = dict((k, (str(v)[:300])) for k, v in r.items()
                                                            if k in ('kind', 'class', 'mode', 'input', 'what', 'expected', 'observed'))
                    except Exception as e:   # noqa
                        pass
    finally:
        restore()
        sh('rm -rf replays', cwd=ROOT)
    print(json.dumps(rep, indent=1))
    confirmed = (rep.get('demo_without_patch') == 'pass' and rep.get('demo_with_patch') == 'FAIL'
                 and rep.get('suite', '').startswith('346 tests run: 346 passed'))
    if keep and confirmed:
        out = os.path.join(ROOT, 'seeded', keep)
        os.makedirs(out, exist_ok=True)
        sh(['cp', patch, os.path.join(out, 'patch.diff')])
        sh(['cp', demo, os.path.join(out, 'demo.rs')])
        try:
            meta = json.load(open(os.path.join(d, 'meta.json')))
        except Exception:   # noqa
            meta = {}
        meta['confirmed_by'] = dict(
            ran=['cargo test -p derive-ex-tests --test seeded_demo (demo as derive-ex-tests/tests/seeded_demo.rs): '
                 'passes without the patch, fails with it',
                 'cargo nextest run --workspace --no-fail-fast --offline with the patch: ' + rep.get('suite', ''),
                 './check <pid> --tier quick with the patch applied to /repo, then git -C /repo checkout -- .'],
            checks=dict((k, dict(exit=v['exit'], first=(v['lines'] or [''])[0][:160],
                                 replay_class=v.get('replay', {}).get('class'),
                                 replay_input=v.get('replay', {}).get('input')))
                        for k, v in rep['checks'].items()),
            caught_by=[k for k, v in rep['checks'].items() if v['exit'] == 1])
        json.dump(meta, open(os.path.join(out, 'meta.json'), 'w'), indent=1)
        print('kept as', out)
    elif keep:
        print('NOT kept: claim not confirmed')
    return 0


sys.exit(main())
