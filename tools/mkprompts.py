#!/usr/bin/env python3
"""Write the prompts for a round of seeded changes: tools/mkprompts.py <scratch-dir> "<focus sentence>"
One prompt per property: the property's text, the summaries of the changes earlier rounds delivered for it (so that the
new one is different) and the focus of the round.  Nothing from /verif other than those summaries is given away."""
import json
import os
import sys

ROOT = os.path.dirname(os.path.dirname(os.path.abspath(__file__)))
TEMPLATE = open(os.path.join(ROOT, 'tools', 'prompt_template.txt')).read()


def main():
    out, focus = sys.argv[1], sys.argv[2]
    os.makedirs(out, exist_ok=True)
    props = [json.loads(l) for l in open(os.path.join(ROOT, 'properties.jsonl'))]
    seeded = os.path.join(ROOT, 'seeded')
    for p in props:
        pid = p['id']
        earlier = []
        for d in sorted(os.listdir(seeded)):
            mp = os.path.join(seeded, d, 'meta.json')
            if d.startswith(pid) and os.path.exists(mp):
                earlier.append(json.load(open(mp)).get('summary', '')[:260].replace('\n', ' '))
        wt = os.path.join(out, pid)
        text = TEMPLATE.replace('@WT@', wt).replace('@PID@', pid).replace('@TITLE@', p['title']) \
            .replace('@STATEMENT@', p['statement']).replace('@QUANT@', p['quantifier']['text']) \
            .replace('@EARLIER@', '\n'.join('  EARLIER CHANGE %d: %s' % (i + 1, e) for i, e in enumerate(earlier))) \
            .replace('@FOCUS@', focus)
        open(os.path.join(out, pid + '.prompt'), 'w').write(text)
    print('wrote', len(props), 'prompts to', out)


if __name__ == '__main__':
    main()
