#!/usr/bin/env python3
"""Run every kept seeded change (seeded/<id>/patch.diff) against every check (quick tier) and write
seeded/matrix.json + seeded/README.md.   tools/seeded_matrix.py [seed-dir-name ...]

Each patch is applied to /repo with `git apply`, the checks run, and the tree is restored with `git checkout -- .`
straight afterwards; nothing is committed to /repo."""
import json
import os
import re
import subprocess
import sys

REPO = '/repo'
ROOT = os.path.dirname(os.path.dirname(os.path.abspath(__file__)))
SEEDED = os.path.join(ROOT, 'seeded')
ALL = ['C%02d' % i for i in range(1, 21)]


def sh(cmd, cwd=None):
    p = subprocess.run(cmd, cwd=cwd, shell=isinstance(cmd, str), stdout=subprocess.PIPE, stderr=subprocess.STDOUT, text=True)
    return p.returncode, p.stdout


def main():
    args = [a for a in sys.argv[1:] if not a.startswith('--')]
    targeted_only = '--targeted-only' in sys.argv[1:]
    names = args or sorted(d for d in os.listdir(SEEDED) if os.path.isdir(os.path.join(SEEDED, d)))
    mpath = os.path.join(SEEDED, 'matrix.json')
    matrix = json.load(open(mpath)) if os.path.exists(mpath) else {}
    assert sh('git status --porcelain', cwd=REPO)[1].strip() == '', '/repo not clean'
    for name in names:
        d = os.path.join(SEEDED, name)
        rc, out = sh(['git', 'apply', os.path.join(d, 'patch.diff')], cwd=REPO)
        if rc != 0:
            matrix[name] = dict(error='patch does not apply: ' + out[-300:])
            continue
        row = {}
        try:
            def one(pid):
                rc, out = sh(['./check', pid, '--tier', 'quick'], cwd=ROOT)
                v = [l for l in out.split('\n') if l.startswith('VIOLATION')]
                kind = 'pass'
                detail = ''
                if rc == 1:
                    kind = 'L1/proof only' if all(l.endswith('no-failing-input-found') for l in v) else 'failing input'
                    m = re.search(r'replay=(\S+)', v[0]) if v else None
                    if m:
                        try:
                            r = json.load(open(os.path.join(ROOT, m.group(1))))
                            detail = (r.get('class') or r.get('kind') or '') + ': ' + str(r.get('input', ''))[:200]
                        except Exception:   # noqa
                            pass
                elif rc != 0:
                    kind = 'internal error (exit %d)' % rc
                    detail = out[-300:]
                sys.stderr.write('%s %s %s\n' % (name, pid, kind))
                return pid, dict(result=kind, detail=detail)
            # the targeted check first (it rebuilds the expander and the proc-macro from the patched tree), the others
            # four at a time (the builds are behind locks, every check has its own scratch directories)
            first = name[:3] if name[:3] in ALL else ALL[0]
            pid, res = one(first)
            row[pid] = res
            from concurrent.futures import ThreadPoolExecutor
            with ThreadPoolExecutor(max_workers=4) as ex:
                for pid, res in ex.map(one, [] if targeted_only else [p for p in ALL if p != first]):
                    row[pid] = res
            if targeted_only:
                row['_note'] = 'targeted check only'
        finally:
            sh('git checkout -- .', cwd=REPO)
            sh('rm -rf replays', cwd=ROOT)
        matrix[name] = row
        json.dump(matrix, open(mpath, 'w'), indent=1)
    write_readme(matrix)


def write_readme(matrix):
    lines = ['# Seeded changes', '',
             'Each directory holds a change to /repo produced by a fresh sub-agent that was given only the text of one property',
             'and a scratch worktree (nothing from /verif): `patch.diff`, the demonstration `demo.rs` (an integration test that',
             'passes on the unchanged tree and fails with the patch, while the 346 existing tests still pass) and `meta.json`',
             '(what was changed, what it needs in order to manifest, what was run to confirm it).', '',
             'The table is written by `tools/seeded_matrix.py`: every patch applied to /repo in turn, every check run in its quick',
             'tier, the tree restored.  "failing input" = the check printed VIOLATION lines with a concrete replay;',
             '"L1/proof only" = only the correspondence broke (VIOLATION ... no-failing-input-found).  Rows marked (t) were run',
             'with `--targeted-only`: only the check of the targeted property was run against that change.', '',
             '| seeded change | targets | caught by (failing input) | correspondence only | first replay of the targeted check |',
             '|---|---|---|---|---|']
    for name in sorted(matrix):
        row = matrix[name]
        if 'error' in row:
            lines.append('| %s | | %s | | |' % (name, row['error']))
            continue
        target = name[:3]
        fi = [p for p in ALL if row.get(p, {}).get('result') == 'failing input']
        l1 = [p for p in ALL if row.get(p, {}).get('result') == 'L1/proof only']
        det = row.get(target, {}).get('detail', '').replace('|', '\\|')
        lines.append('| %s%s | %s | %s | %s | `%s` |' % (name, ' (t)' if row.get('_note') else '', target, ' '.join(fi) or '-',
                                                       ' '.join(l1) or '-', det[:160]))
    neutral = [n for n in matrix if os.path.exists(os.path.join(SEEDED, n, 'NEUTRALISED'))]
    missed = [n for n in matrix if 'error' not in matrix[n] and matrix[n].get(n[:3], {}).get('result') != 'failing input'
              and n not in neutral]
    for n in neutral:
        lines += ['', '`%s`: %s' % (n, open(os.path.join(SEEDED, n, 'NEUTRALISED')).read().strip())]
    lines += ['', 'Targeted check without a concrete failing input: %s' % (', '.join(missed) or 'none'), '']
    hist = os.path.join(SEEDED, 'HISTORY.md')
    if os.path.exists(hist):
        lines += open(hist).read().split('\n')
    open(os.path.join(SEEDED, 'README.md'), 'w').write('\n'.join(lines))


if __name__ == '__main__':
    main()
